(* C09: whatever zerv's PEP 440 parser returns is in normal form (numbers below 2^32, non-empty release, every label with its number,
   local segments lower-case alphanumeric or numbers) - so printing it and parsing again returns the same value: normalising is idempotent. *)
From Coq Require Import Lia.
From ZV Require Import Str Dec Sanitize SanitizeSpec StrFacts DecFacts SanitizeProofs Zerv Render Pep440 Convert NoPanicProofs IdentProofs PepWfProofs Pep440Nf PepRoundTrip
                       PepParseBack Pep440Order.
Open Scope N_scope.

Lemma first_some_inv {A B} (f : A -> option B) l y : first_some f l = Some y -> exists x, In x l /\ f x = Some y.
Proof.
  induction l as [|x l IH]; [discriminate|]. rewrite first_some_cons. destruct (f x) as [y'|] eqn:E.
  - intros H. inversion H; subst. exists x. split; [left; reflexivity|exact E].
  - intros H. destruct (IH H) as [x' [Hi Hx]]. exists x'. split; [right; exact Hi|exact Hx].
Qed.

(* every scanner stage ends by calling its continuation *)
Lemma digits_k_inv {B} (k : option str -> str -> option B) s3 r :
  first_some (fun '(n, s4) => k n s4) (opt_digits s3) = Some r -> exists a s', k a s' = Some r.
Proof. intros H. apply first_some_inv in H. destruct H as [[n s4] [_ H]]. exists n, s4. exact H. Qed.

Lemma scan_dev_inv {B} (k : option (option str) -> str -> option B) s r : scan_dev k s = Some r -> exists a s', k a s' = Some r.
Proof.
  unfold scan_dev. match goal with |- match ?X with _ => _ end = _ -> _ => destruct X as [r0|] eqn:E end.
  - intros H. inversion H; subst r0. apply first_some_inv in E. destruct E as [s1 [_ E]]. destruct (ci_prefix L_dev s1) as [s2|]; [|discriminate].
    apply first_some_inv in E. destruct E as [s3 [_ E]]. apply (digits_k_inv (fun n => k (Some n))) in E. destruct E as [a [s' E]]. exists (Some a), s'. exact E.
  - intros H. exists None, s. exact H.
Qed.

Lemma scan_post_inv {B} (k : option (option str) -> str -> option B) s r : scan_post k s = Some r -> exists a s', k a s' = Some r.
Proof.
  unfold scan_post. match goal with |- match ?X with _ => _ end = _ -> _ => destruct X as [r0|] eqn:E end.
  - intros H. inversion H; subst r0. destruct s as [|c t]; [discriminate|]. destruct (c =? 45); [|discriminate].
    destruct (span is_ascii_digit t) as [d r1]. destruct d as [|x d]; [discriminate|]. exists (Some (Some (x :: d))), r1. exact E.
  - clear E. match goal with |- match ?X with _ => _ end = _ -> _ => destruct X as [r0|] eqn:E end.
    + intros H. inversion H; subst r0. apply first_some_inv in E. destruct E as [s1 [_ E]]. apply first_some_inv in E. destruct E as [l [_ E]].
      destruct (ci_prefix l s1) as [s2|]; [|discriminate].
      apply first_some_inv in E. destruct E as [s3 [_ E]]. apply (digits_k_inv (fun n => k (Some n))) in E. destruct E as [a [s' E]]. exists (Some a), s'. exact E.
    + intros H. exists None, s. exact H.
Qed.

Lemma scan_pre_inv {B} (k : option (label * option str) -> str -> option B) s r : scan_pre k s = Some r -> exists a s', k a s' = Some r.
Proof.
  unfold scan_pre. match goal with |- match ?X with _ => _ end = _ -> _ => destruct X as [r0|] eqn:E end.
  - intros H. inversion H; subst r0. apply first_some_inv in E. destruct E as [s1 [_ E]]. apply first_some_inv in E. destruct E as [[l lab] [_ E]].
    destruct (ci_prefix l s1) as [s2|]; [|discriminate].
    apply first_some_inv in E. destruct E as [s3 [_ E]]. apply (digits_k_inv (fun n => k (Some (lab, n)))) in E. destruct E as [a [s' E]]. exists (Some (lab, a)), s'. exact E.
  - intros H. exists None, s. exact H.
Qed.

(* release options never carry an empty list *)
Lemma release_more_nonempty fuel : forall acc s opts, acc <> [] -> Forall (fun o => fst o <> []) opts ->
  Forall (fun o : list str * str => fst o <> []) (release_more fuel acc s opts).
Proof.
  assert (R : forall acc : list str, acc <> [] -> rev acc <> []).
  { intros acc Ha E. apply Ha. rewrite <- (rev_involutive acc), E. reflexivity. }
  induction fuel as [|f IH]; intros acc s opts Ha Ho; cbn [release_more].
  - constructor; [apply R, Ha|exact Ho].
  - destruct s as [|c t]; [constructor; [apply R, Ha|exact Ho]|]. destruct (c =? 46); [|constructor; [apply R, Ha|exact Ho]].
    destruct (span is_ascii_digit t) as [d r]. destruct d as [|x d]; [constructor; [apply R, Ha|exact Ho]|].
    apply IH; [discriminate|constructor; [apply R, Ha|exact Ho]].
Qed.

Lemma release_options_nonempty s : Forall (fun o : list str * str => fst o <> []) (release_options s).
Proof.
  unfold release_options. destruct (span is_ascii_digit s) as [d r]. destruct d as [|x d]; [constructor|].
  apply release_more_nonempty; [discriminate|constructor].
Qed.

(* what the captures guarantee *)
Definition caps_ok (k : caps) : Prop :=
  k_release k <> [] /\ match k_local k with Some l => local_ok l = true | None => True end.

Lemma scan_from_release_ok ep s k : scan_from_release ep s = Some k -> caps_ok k.
Proof.
  unfold scan_from_release. intros H. apply first_some_inv in H. destruct H as [[rel s1] [Hi H]].
  pose proof (release_options_nonempty s) as Hn. rewrite Forall_forall in Hn. specialize (Hn _ Hi). cbn [fst] in Hn.
  apply scan_pre_inv in H. destruct H as [pre [s2 H]]. apply scan_post_inv in H. destruct H as [post [s3 H]].
  apply scan_dev_inv in H. destruct H as [dev [s4 H]]. destruct (scan_tail s4) as [loc|] eqn:T; [|discriminate]. inversion H; subst k. clear H.
  split; [exact Hn|]. cbn [k_local]. destruct loc as [t|]; [|exact I]. unfold scan_tail in T. destruct s4 as [|c t']; [discriminate|].
  destruct (c =? 43); [|discriminate]. destruct (local_ok t') eqn:L; [|discriminate]. inversion T; subst. exact L.
Qed.

Lemma pep_caps_ok s k : pep_caps s = Some k -> caps_ok k.
Proof.
  unfold pep_caps. destruct (span is_ascii_digit (strip_v_ci s)) as [d r].
  match goal with |- match ?X with _ => _ end = _ -> _ => destruct X as [k0|] eqn:E end.
  - intros H. inversion H; subst k0. destruct d as [|x d]; [discriminate|]. destruct r as [|c t]; [discriminate|]. destruct (c =? 33); [|discriminate].
    apply (scan_from_release_ok _ _ _ E).
  - apply scan_from_release_ok.
Qed.

(* ---- local segments ---- *)
Definition norm_sep (c : cp) : cp := if (c =? 45) || (c =? 95) then c_dot else c.

Lemma alnum_char_facts c : is_ascii_alnum c = true -> (c =? 45) = false /\ (c =? 95) = false /\ (c =? c_dot) = false.
Proof.
  unfold is_ascii_alnum, is_ascii_alpha, is_ascii_upper, is_ascii_lower, is_ascii_digit, c_dot. intros H.
  repeat split; apply N.eqb_neq; intros ->; vm_compute in H; discriminate.
Qed.

Lemma local_ok_parts s : forall b, local_ok_aux s b = true ->
  exists p ps, split_on c_dot (map norm_sep s) = p :: ps /\ alnum p /\ (b = true -> p <> []) /\ Forall good ps.
Proof.
  induction s as [|c t IH]; intros b H.
  - cbn in H. exists [], []. repeat split; [constructor| |constructor]. intros ->. discriminate.
  - cbn [local_ok_aux] in H. unfold local_char in H. destruct (is_ascii_alnum c) eqn:Ec.
    + destruct (IH false H) as [p [ps [E [Hp [_ Hps]]]]]. destruct (alnum_char_facts c Ec) as [E1 [E2 E3]].
      assert (En : norm_sep c = c) by (unfold norm_sep; rewrite E1, E2; reflexivity).
      exists (c :: p), ps. cbn [map split_on]. rewrite En, E3, E.
      repeat split; [constructor; assumption|discriminate|exact Hps].
    + destruct (sep_char c) eqn:Es; [|discriminate]. destruct b; [discriminate|]. destruct (IH true H) as [p [ps [E [Hp [Hn Hps]]]]].
      exists [], (p :: ps). cbn [map split_on].
      assert (Ed : (norm_sep c =? c_dot) = true).
      { unfold norm_sep. unfold sep_char in Es. destruct (c =? 45); [reflexivity|]. destruct (c =? 95); [reflexivity|]. cbn [orb] in *. exact Es. }
      rewrite Ed, E. repeat split; [constructor|discriminate|]. constructor; [split; [apply Hn; reflexivity|exact Hp]|exact Hps].
Qed.

Lemma parse_u32_bound s n : parse_u32 s = Some n -> u32 n.
Proof.
  unfold parse_u32, parse_uint_bits. destruct (parse_dec _) as [m|]; [|discriminate]. destruct (m <? 2 ^ 32) eqn:E; [|discriminate].
  intros H. inversion H; subst. apply N.ltb_lt in E. exact E.
Qed.

Lemma lower_not_upper x : is_ascii_upper (ascii_lower x) = false.
Proof.
  unfold ascii_lower. destruct (is_ascii_upper x) eqn:E; [|exact E]. unfold is_ascii_upper in *. apply andb_true_iff in E. destruct E as [E1 E2].
  apply N.leb_le in E1. apply N.leb_le in E2. apply andb_false_iff. right. apply N.leb_gt. lia.
Qed.

Lemma lower_digit x : is_ascii_digit (ascii_lower x) = is_ascii_digit x.
Proof.
  unfold ascii_lower. destruct (is_ascii_upper x) eqn:E; [|reflexivity]. unfold is_ascii_upper in E. apply andb_true_iff in E. destruct E as [E1 E2].
  apply N.leb_le in E1. apply N.leb_le in E2. unfold is_ascii_digit.
  assert (A : (x + 32 <=? 57) = false) by (apply N.leb_gt; lia). assert (B : (x <=? 57) = false) by (apply N.leb_gt; lia). rewrite A, B, !andb_false_r. reflexivity.
Qed.

Lemma lower_all_digits s : all_b is_ascii_digit (map ascii_lower s) = all_b is_ascii_digit s.
Proof. induction s as [|x s IH]; [reflexivity|]. cbn [map]. unfold all_b in *. cbn [forallb]. rewrite IH, lower_digit. reflexivity. Qed.

Lemma lower_no_upper s : Forall (fun x => is_ascii_upper x = false) (map ascii_lower s).
Proof. induction s as [|x s IH]; constructor; [apply lower_not_upper|exact IH]. Qed.

Lemma lower_fixed s : Forall (fun x => is_ascii_upper x = false) s -> map ascii_lower s = s.
Proof. induction 1 as [|x s Hx _ IH]; [reflexivity|]. cbn [map]. rewrite IH. unfold ascii_lower. rewrite Hx. reflexivity. Qed.

Lemma digit_no_upper x : is_ascii_digit x = true -> is_ascii_upper x = false.
Proof.
  unfold is_ascii_digit, is_ascii_upper. intros H. apply andb_true_iff in H. destruct H as [H1 H2]. apply N.leb_le in H2.
  apply andb_false_iff. left. apply N.leb_gt. lia.
Qed.

Lemma digits_no_upper s : all_b is_ascii_digit s = true -> Forall (fun x => is_ascii_upper x = false) s.
Proof.
  unfold all_b. induction s as [|x s IH]; [constructor|]. cbn [forallb]. intros H. apply andb_true_iff in H. destruct H as [H1 H2].
  constructor; [apply digit_no_upper, H1|apply IH, H2].
Qed.

Lemma lower_alnum_all s : alnum s -> alnum (map ascii_lower s).
Proof. induction 1 as [|x s Hx _ IH]; constructor; [apply lower_alnum, Hx|exact IH]. Qed.

Lemma sanitize_local_alnum g : g <> [] -> alnum g -> sanitize pep440_local_str g = fix0 (map ascii_lower g).
Proof.
  intros Hne Hg. unfold sanitize. cbn [sz_uint pep440_local_str].
  change (sanitize_to_string pep440_local_str g) with (sanitize_to_string (custom_str (Some [c_dot]) true false None) g).
  rewrite (shape_nomax c_dot dot_not_alnum). unfold lowered, f_of.
  pose proof (lower_alnum_all g Hg) as Hl.
  unfold ascii_runs. rewrite (split_by_alnum_single _ Hl).
  destruct (map ascii_lower g) as [|y l] eqn:El.
  - destruct g; [congruence|discriminate].
  - cbn [filter is_nil negb map intercalate]. apply strip_is_fix0.
Qed.

(* a non-empty all-zero string parses as 0 *)
Lemma zeros_uint s : Forall (fun x => x = c_0) s -> exists u, uint_of_str s = Some u /\ N.of_uint u = 0.
Proof.
  induction 1 as [|x s Hx _ IH]; [exists Decimal.Nil; split; reflexivity|]. destruct IH as [u [E Z]]. subst x.
  exists (Decimal.D0 u). cbn [uint_of_str]. rewrite E. split; [reflexivity|]. exact Z.
Qed.

Lemma drop_zeros_nil s : drop_while (N.eqb c_0) s = [] -> Forall (fun x => x = c_0) s.
Proof.
  induction s as [|x s IH]; [constructor|]. cbn [drop_while]. destruct (N.eqb_spec c_0 x) as [<-|]; [|discriminate]. intros H. constructor; [reflexivity|apply IH, H].
Qed.

Lemma zeros_parse_u32 s : s <> [] -> Forall (fun x => x = c_0) s -> parse_u32 s = Some 0.
Proof.
  intros Hne Hz. destruct (zeros_uint s Hz) as [u [E Z]]. unfold parse_u32, parse_uint_bits.
  destruct s as [|c t]; [congruence|]. inversion Hz; subst. change (c_0 =? 43) with false. cbv iota.
  unfold parse_dec. rewrite E, Z. reflexivity.
Qed.

Lemma drop_while_alnum s : alnum s -> alnum (drop_while (N.eqb c_0) s).
Proof. induction 1 as [|x s Hx Hs IH]; [constructor|]. cbn [drop_while]. destruct (N.eqb c_0 x); [exact IH|constructor; assumption]. Qed.

Lemma drop_while_digits s : all_b is_ascii_digit s = true -> all_b is_ascii_digit (drop_while (N.eqb c_0) s) = true.
Proof.
  unfold all_b. induction s as [|x s IH]; [reflexivity|]. cbn [forallb drop_while]. intros H. apply andb_true_iff in H. destruct H as [H1 H2].
  destruct (N.eqb c_0 x); [apply IH, H2|]. cbn [forallb]. rewrite H1, H2. reflexivity.
Qed.

Lemma drop_while_head s : match drop_while (N.eqb c_0) s with x :: _ => N.eqb x c_0 = false | [] => True end.
Proof.
  induction s as [|x s IH]; [exact I|]. cbn [drop_while]. destruct (N.eqb c_0 x) eqn:E; [exact IH|]. rewrite N.eqb_sym. exact E.
Qed.

Lemma local_part_nf p g : good p -> local_part p = Some g -> lseg_nf (normalize_lseg g).
Proof.
  intros [Hne Ha]. unfold local_part. destruct p as [|x0 p0] eqn:Ep; [congruence|]. rewrite <- Ep in *. cbv iota. cbn [andb].
  destruct (all_b is_ascii_digit p) eqn:Ad.
  - destruct (parse_u32 p) as [n|] eqn:P.
    + intros H. inversion H; subst g. cbn. apply (parse_u32_bound _ _ P).
    + intros H. inversion H; subst g. cbn [normalize_lseg]. set (q := drop_while (N.eqb c_0) p).
      pose proof (drop_while_digits p Ad) as Qd. fold q in Qd. rewrite (lower_fixed q (digits_no_upper q Qd)).
      destruct (parse_u32 q) as [n|] eqn:Pq; [cbn; apply (parse_u32_bound _ _ Pq)|]. cbn [lseg_nf].
      assert (Qn : q <> []).
      { intros E. apply drop_zeros_nil in E. rewrite (zeros_parse_u32 p Hne E) in P. discriminate. }
      split; [split; [exact Qn|apply drop_while_alnum, Ha]|]. split; [apply digits_no_upper, Qd|]. split; [|exact Pq].
      unfold has_leading_zero. rewrite Qd. cbn [andb]. pose proof (drop_while_head p) as Hh. fold q in Hh. destruct q as [|a [|b q']]; [reflexivity..|exact Hh].
  - rewrite (sanitize_local_alnum p Hne Ha). unfold fix0. rewrite lower_all_digits, Ad.
    pose proof (alnum_no_dot _ (lower_alnum_all p Ha)) as Nd. rewrite Nd. intros H. inversion H; subst g. cbn [normalize_lseg].
    rewrite (lower_fixed _ (lower_no_upper p)). destruct (parse_u32 (map ascii_lower p)) as [n|] eqn:Pq; [cbn; apply (parse_u32_bound _ _ Pq)|]. cbn [lseg_nf].
    split; [split; [rewrite Ep; discriminate|apply lower_alnum_all, Ha]|]. split; [apply lower_no_upper|]. split; [|exact Pq].
    unfold has_leading_zero. rewrite lower_all_digits, Ad. reflexivity.
Qed.

Lemma parse_local_nf l x : local_ok l = true -> parse_local_segments l = Some x -> x <> [] /\ Forall lseg_nf (map normalize_lseg x).
Proof.
  intros Hok. unfold parse_local_segments. fold norm_sep. change (map (fun c => if (c =? 45) || (c =? 95) then c_dot else c) l) with (map norm_sep l).
  destruct (local_ok_parts l true Hok) as [p [ps [E [Hp [Hn Hps]]]]]. rewrite E.
  assert (G : Forall good (p :: ps)) by (constructor; [split; [apply Hn; reflexivity|exact Hp]|exact Hps]).
  clear E Hp Hn Hps Hok.
  assert (Gen : forall parts x, Forall good parts ->
            (fix go (ps0 : list str) : option (list lseg) := match ps0 with [] => Some [] | p0 :: ps' =>
               match local_part p0, go ps' with Some x0, Some xs => Some (x0 :: xs) | _, _ => None end end) parts = Some x ->
            length x = length parts /\ Forall lseg_nf (map normalize_lseg x)).
  { clear. induction parts as [|p0 ps IH]; intros x G H.
    - inversion H; subst. split; [reflexivity|constructor].
    - inversion G as [|? ? Gp Gps]; subst. destruct (local_part p0) as [g|] eqn:Lp; [|discriminate].
      match type of H with match ?Y with _ => _ end = _ => destruct Y as [xs|] eqn:Eg; [|discriminate] end.
      inversion H; subst x. destruct (IH xs Gps eq_refl) as [L F]. split; [cbn; rewrite L; reflexivity|]. cbn [map]. constructor; [apply (local_part_nf p0 g Gp Lp)|exact F]. }
  intros H. destruct (Gen (p :: ps) x G H) as [L F]. split; [|exact F]. destruct x; [discriminate L|discriminate].
Qed.

Lemma map_num32_bound l : forall rel, map_opt_n num32 l = Some rel -> Forall u32 rel /\ length rel = length l.
Proof.
  induction l as [|x l IH]; intros rel H; cbn [map_opt_n] in H.
  - inversion H; subst. split; [constructor|reflexivity].
  - destruct (num32 x) as [y|] eqn:Ex; [|discriminate]. destruct (map_opt_n num32 l) as [ys|]; [|discriminate]. inversion H; subst.
    destruct (IH ys eq_refl) as [F L]. split; [constructor; [apply (parse_u32_bound x y Ex)|exact F]|cbn; rewrite L; reflexivity].
Qed.

Lemma opt_num32_bound o r : opt_num32 o = Some r -> opt_u32_ok r.
Proof.
  unfold opt_num32. destruct o as [d|]; [|intros H; inversion H; exact I]. destruct (num32 d) as [n|] eqn:E; [|discriminate].
  intros H. inversion H; subst. apply (parse_u32_bound d n E).
Qed.

Theorem pep_of_caps_nf k v : caps_ok k -> pep_of_caps k = Some v -> pep_nf v.
Proof.
  intros [Hr Hl]. unfold pep_of_caps.
  destruct (map_opt_n num32 (k_release k)) as [rel|] eqn:Er; [|discriminate].
  match goal with |- match ?X with _ => _ end = _ -> _ => destruct X as [ep|] eqn:Ee; [|discriminate] end.
  match goal with |- match ?X with _ => _ end = _ -> _ => destruct X as [[pl pn]|] eqn:Ep; [|discriminate] end.
  match goal with |- match ?X with _ => _ end = _ -> _ => destruct X as [[ql qn]|] eqn:Eq; [|discriminate] end.
  match goal with |- match ?X with _ => _ end = _ -> _ => destruct X as [[dl dn]|] eqn:Ed; [|discriminate] end.
  match goal with |- match ?X with _ => _ end = _ -> _ => destruct X as [loc|] eqn:El; [|discriminate] end.
  intros H. inversion H; subst v. clear H.
  destruct (map_num32_bound _ _ Er) as [Fr Lr].
  constructor; cbn [p_epoch p_release p_pre_label p_pre_num p_post_label p_post_num p_dev_label p_dev_num p_local].
  - destruct (k_epoch k) as [d|]; [apply (parse_u32_bound d ep Ee)|]. inversion Ee; subst. unfold u32. lia.
  - split; [|exact Fr]. intros E. subst rel. destruct (k_release k); [congruence|discriminate Lr].
  - destruct (k_pre k) as [[l n]|].
    + destruct (opt_num32 n) as [n'|] eqn:En; [|discriminate]. pose proof (opt_num32_bound _ _ En) as B. inversion Ep; subst. clear Ep.
      match type of B with opt_u32_ok ?o => destruct o as [m|] end; [exists m; split; [reflexivity|exact B]|exists 0; split; [reflexivity|unfold u32; lia]].
    + inversion Ep; subst. reflexivity.
  - destruct (k_post k) as [n|].
    + destruct (opt_num32 n) as [n'|] eqn:En; [|discriminate]. pose proof (opt_num32_bound _ _ En) as B. inversion Eq; subst. clear Eq.
      match type of B with opt_u32_ok ?o => destruct o as [m|] end; [exists m; split; [reflexivity|exact B]|exists 0; split; [reflexivity|unfold u32; lia]].
    + inversion Eq; subst. reflexivity.
  - destruct (k_dev k) as [n|].
    + destruct (opt_num32 n) as [n'|] eqn:En; [|discriminate]. pose proof (opt_num32_bound _ _ En) as B. inversion Ed; subst. clear Ed.
      match type of B with opt_u32_ok ?o => destruct o as [m|] end; [exists m; split; [reflexivity|exact B]|exists 0; split; [reflexivity|unfold u32; lia]].
    + inversion Ed; subst. reflexivity.
  - destruct (k_local k) as [l|]; [|inversion El; subst; exact I].
    destruct (parse_local_segments l) as [x|] eqn:Px; [|discriminate]. inversion El; subst. cbn [option_map].
    destruct (parse_local_nf l x Hl Px) as [Hn F]. split; [|exact F]. destruct x; [congruence|discriminate].
Qed.

(* whatever the parser returns is in normal form *)
Theorem pep_extract_nf s v : pep_extract s = Some v -> pep_nf v.
Proof.
  unfold pep_extract. destruct (pep_caps s) as [k|] eqn:E; [|discriminate]. apply pep_of_caps_nf, (pep_caps_ok s k E).
Qed.

Theorem pep_parse_nf s v : pep_parse s = Some v -> pep_nf v.
Proof. unfold pep_parse. destruct (rx_accepts _ _); [apply pep_extract_nf|discriminate]. Qed.

(* normalising is idempotent: printing a parsed value and parsing the print returns the same value, and the print of that is the same string *)
Theorem pep_normalise_idempotent s v : pep_parse s = Some v ->
  pep_parse (pep_print v) = Some v.
Proof. intros H. apply pep_parse_print, (pep_parse_nf s v H). Qed.


(* the normal form compares equal to the original *)
Corollary pep_normal_form_equal s v : pep_parse s = Some v ->
  exists v', pep_parse (pep_print v) = Some v' /\ pep_cmp v v' = Eq /\ pep_print v' = pep_print v.
Proof.
  intros H. exists v. split; [apply (pep_normalise_idempotent s v H)|]. split; [|reflexivity]. apply Pep440Order.pep_cmp_eq. reflexivity.
Qed.

(* every accepted PEP 440 string survives PEP 440 -> Zerv -> PEP 440 unchanged *)
Corollary pep_parsed_roundtrip s v : pep_parse s = Some v -> pep_of_zerv (zerv_of_pep v) = Some v.
Proof. intros H. apply pep_roundtrip, (pep_parse_nf s v H). Qed.

(* `zerv render --input-format pep440 --output-format pep440`: prints the normal form of what it parsed, and that print is a fixed point *)
Theorem render_pep440_normal_form pre s v : pep_parse s = Some v -> render_cmd FPep440 FPep440 pre s = OOk (pre ++ pep_print v).
Proof. intros H. unfold render_cmd, parse_version, format_zerv. rewrite H, (pep_parsed_roundtrip s v H). reflexivity. Qed.

Theorem render_pep440_fixed_point pre s t : render_cmd FPep440 FPep440 pre s = OOk t ->
  exists v, pep_parse s = Some v /\ t = pre ++ pep_print v /\ render_cmd FPep440 FPep440 [] (pep_print v) = OOk (pep_print v).
Proof.
  intros H. destruct (pep_parse s) as [v|] eqn:E.
  - exists v. rewrite (render_pep440_normal_form pre s v E) in H. inversion H; subst. split; [reflexivity|]. split; [reflexivity|].
    apply (render_pep440_normal_form [] _ v), (pep_normalise_idempotent s v E).
  - unfold render_cmd, parse_version in H. rewrite E in H. discriminate.
Qed.

Print Assumptions pep_normalise_idempotent.
Print Assumptions render_pep440_fixed_point.

(* the normal form determines the value: two accepted spellings with the same normal form are parsed to the SAME value (in particular they
   compare equal and are interchangeable everywhere) *)
Theorem same_normal_form_same_value s1 s2 v1 v2 : pep_parse s1 = Some v1 -> pep_parse s2 = Some v2 -> pep_print v1 = pep_print v2 -> v1 = v2.
Proof.
  intros H1 H2 E. pose proof (pep_normalise_idempotent s1 v1 H1) as A. pose proof (pep_normalise_idempotent s2 v2 H2) as B. rewrite E in A. congruence.
Qed.

Corollary same_normal_form_equal s1 s2 v1 v2 : pep_parse s1 = Some v1 -> pep_parse s2 = Some v2 -> pep_print v1 = pep_print v2 -> pep_cmp v1 v2 = Eq.
Proof. intros H1 H2 E. rewrite (same_normal_form_same_value s1 s2 v1 v2 H1 H2 E). apply Pep440Order.pep_cmp_eq. reflexivity. Qed.
