(* C14: `zerv flow` reads the wall clock only in dirty / ahead states: when the state flow sees is clean (not dirty, distance 0 or
   unset) and --dirty is not forced, the output does not depend on the clock. *)
From ZV Require Import Str Zerv Render Convert Bump Cli Flow ClockProofs CtxFrame.
Open Scope N_scope.

Definition calm (vs : vars) : Prop := opt_true (v_dirty vs) = false /\ opt_pos (v_distance vs) = false.

Lemma calm_ctx vs vs' : ctxv vs' = ctxv vs -> calm vs -> calm vs'.
Proof. unfold ctxv, calm. intros E. inversion E. congruence. Qed.

Lemma calm_not_dirty vs : calm vs -> v_dirty vs <> Some true.
Proof. intros [H _] E. rewrite E in H. discriminate. Qed.

(* the object a pass starts from *)
Definition pre_object (a : vargs) (vs0 : vars) (ex : option schema) : outcome zerv :=
  match apply_context_overrides a vs0 with
  | OOk vs => match resolve_schema a ex vs with
              | Some s => if schema_validate s then OOk {| z_schema := s; z_vars := vs |} else OErr
              | None => OErr
              end
  | OErr => OErr
  | OPanic => OPanic
  end.

Lemma to_zerv_with_pre a r vs0 ex now :
  to_zerv_with a r vs0 ex now =
  match pre_object a vs0 ex with
  | OOk z => match r z with
             | Some ra => match apply_component_processing ra z with
                          | Some z' => OOk (normalize_epoch (bump_timestamp now z'))
                          | None => OErr end
             | None => OErr end
  | OErr => OErr
  | OPanic => OPanic
  end.
Proof.
  unfold to_zerv_with, pre_object. destruct (apply_context_overrides a vs0) as [vs| |]; try reflexivity.
  destruct (resolve_schema a ex vs) as [s|]; [|reflexivity]. destruct (schema_validate s); reflexivity.
Qed.

Lemma ctx_normalize_epoch z : ctxv (z_vars (normalize_epoch z)) = ctxv (z_vars z).
Proof. unfold normalize_epoch. destruct (v_epoch (z_vars z)) as [[|p]|]; reflexivity. Qed.

(* a successful pass whose result is calm started from a calm object, and two resolvers that agree on that object give the same result
   at any two clock values *)
Lemma pass_calm a r vs0 ex n cur : to_zerv_with a r vs0 ex n = OOk cur -> calm (z_vars cur) ->
  exists z, pre_object a vs0 ex = OOk z /\ calm (z_vars z).
Proof.
  rewrite to_zerv_with_pre. destruct (pre_object a vs0 ex) as [z| |]; try discriminate.
  destruct (r z) as [ra|]; [|discriminate]. destruct (apply_component_processing ra z) as [z'|] eqn:E; [|discriminate].
  intros H C. inversion H; subst cur. exists z. split; [reflexivity|].
  pose proof (processing_keeps_context _ _ _ E) as K.
  assert (C' : calm (z_vars (bump_timestamp n z'))) by (eapply calm_ctx; [|exact C]; symmetry; apply ctx_normalize_epoch).
  assert (D : v_dirty (z_vars z') <> Some true).
  { rewrite <- (bump_timestamp_dirty n z'). apply calm_not_dirty, C'. }
  rewrite (bump_timestamp_clean n z' D) in C'. eapply calm_ctx; [|exact C']. symmetry. exact K.
Qed.

Lemma pass_agree a r1 r2 vs0 ex n1 n2 z : pre_object a vs0 ex = OOk z -> calm (z_vars z) -> r1 z = r2 z ->
  to_zerv_with a r1 vs0 ex n1 = to_zerv_with a r2 vs0 ex n2.
Proof.
  intros P C R. rewrite !to_zerv_with_pre, P, R. destruct (r2 z) as [ra|]; [|reflexivity].
  destruct (apply_component_processing ra z) as [z'|] eqn:E; [|reflexivity].
  assert (D : v_dirty (z_vars z') <> Some true).
  { apply calm_not_dirty. eapply calm_ctx; [|exact C]. apply (processing_keeps_context _ _ _ E). }
  rewrite !(bump_timestamp_clean _ z' D). reflexivity.
Qed.

(* in a calm state the bump arguments do not read the clock *)
Lemma flow_bumps_calm lab num mode hl n1 n2 a z : calm (z_vars z) -> flow_bumps lab num mode hl n1 a z = flow_bumps lab num mode hl n2 a z.
Proof.
  intros [C1 C2]. unfold flow_bumps. destruct (flow_overrides a z) as [o|]; [|reflexivity]. cbv zeta. rewrite C1, C2. cbn [orb negb].
  destruct mode; reflexivity.
Qed.

Theorem flow_zerv_clock f stdin n1 n2 :
  o_dirty (f_base f) = false ->
  (let a1 := pass_args f false in
   match run_pass a1 (flow_overrides a1) stdin n1 with OOk cur => calm (z_vars cur) | _ => True end) ->
  flow_zerv f stdin n1 = flow_zerv f stdin n2.
Proof.
  intros Hd. cbv zeta. unfold flow_zerv. rewrite Hd. set (a1 := pass_args f false). intros Hc.
  assert (P : run_pass a1 (flow_overrides a1) stdin n1 = run_pass a1 (flow_overrides a1) stdin n2).
  { apply run_pass_clock. destruct (run_pass a1 (flow_overrides a1) stdin n1) as [cur| |]; try exact I. apply calm_not_dirty, Hc. }
  rewrite <- P. destruct (run_pass a1 (flow_overrides a1) stdin n1) as [cur| |] eqn:E1; try reflexivity.
  destruct (negb (flow_validate f)); [reflexivity|].
  destruct (resolve_for_branch _ (v_bumped_branch (z_vars cur))) as [[rl rn] rm].
  destruct Hc as [C1 C2]. rewrite C1, C2. cbn [orb].
  (* dirty2 = false in every branch *)
  assert (D2 : (if negb false && negb (o_no_dirty (f_base f))
                then match match f_mode f with Some m => m | None => rm end with ModeTag => false | ModeCommit => false end
                else false) = false) by (destruct (negb false && negb (o_no_dirty (f_base f))); [destruct (match f_mode f with Some m => m | None => rm end)|]; reflexivity).
  rewrite D2. fold a1.
  (* second pass: same start object, calm, resolvers agree on it *)
  unfold run_pass in *. destruct (negb (validate_args a1)); [reflexivity|].
  destruct (match g_source a1 with Some s => s | None => _ end); try reflexivity.
  - destruct (pass_calm _ _ _ _ _ _ E1 (conj C1 C2)) as [z [Pz Cz]].
    eapply pass_agree; [exact Pz|exact Cz|apply flow_bumps_calm, Cz].
  - destruct stdin as [[z0|]|]; try reflexivity.
    destruct (pass_calm _ _ _ _ _ _ E1 (conj C1 C2)) as [z [Pz Cz]].
    eapply pass_agree; [exact Pz|exact Cz|apply flow_bumps_calm, Cz].
Qed.

Theorem flow_output_clock f stdin n1 n2 :
  o_dirty (f_base f) = false ->
  (let a1 := pass_args f false in
   match run_pass a1 (flow_overrides a1) stdin n1 with OOk cur => calm (z_vars cur) | _ => True end) ->
  flow_output f stdin n1 = flow_output f stdin n2.
Proof. intros Hd Hc. unfold flow_output. rewrite (flow_zerv_clock f stdin n1 n2 Hd Hc). reflexivity. Qed.

(* C04: "nothing changed at a clean tagged commit".  In a calm state (not dirty, distance 0 or unset, --dirty not forced) flow's second
   pass carries no bump at all: the result is exactly the object of the first pass - the base version with the explicit overrides. *)
Lemma flow_bumps_calm_is_overrides lab num mode hl now a z : calm (z_vars z) -> flow_bumps lab num mode hl now a z = flow_overrides a z.
Proof.
  intros [C1 C2]. unfold flow_bumps. destruct (flow_overrides a z) as [o|] eqn:E; [|reflexivity]. cbv zeta. rewrite C1, C2. cbn [orb negb andb].
  unfold flow_overrides in E. destruct (resolve_args a) as [ra|]; [|discriminate]. inversion E; subst o. clear E.
  destruct mode; cbn [negb orb andb]; rewrite ?andb_false_r; reflexivity.
Qed.

Theorem flow_clean_is_first_pass f stdin now :
  o_dirty (f_base f) = false -> flow_validate f = true ->
  forall cur, (let a1 := pass_args f false in run_pass a1 (flow_overrides a1) stdin now = OOk cur) -> calm (z_vars cur) ->
  flow_zerv f stdin now = OOk cur.
Proof.
  intros Hd Hv cur. cbv zeta. set (a1 := pass_args f false). intros E1 [C1 C2].
  unfold flow_zerv. rewrite Hd. fold a1. rewrite E1, Hv. cbn [negb].
  destruct (resolve_for_branch _ (v_bumped_branch (z_vars cur))) as [[rl rn] rm]. rewrite C1, C2. cbn [orb].
  match goal with |- context [if ?b then match ?m with ModeTag => false | ModeCommit => false end else false] =>
    assert (D2 : (if b then match m with ModeTag => false | ModeCommit => false end else false) = false) by (destruct b; [destruct m|]; reflexivity) end.
  rewrite D2. fold a1. rewrite <- E1.
  unfold run_pass in *. destruct (negb (validate_args a1)); [reflexivity|].
  destruct (match g_source a1 with Some s => s | None => _ end); try reflexivity.
  - destruct (pass_calm _ _ _ _ _ _ E1 (conj C1 C2)) as [z [Pz Cz]].
    eapply pass_agree; [exact Pz|exact Cz|apply flow_bumps_calm_is_overrides, Cz].
  - destruct stdin as [[z0|]|]; try reflexivity.
    destruct (pass_calm _ _ _ _ _ _ E1 (conj C1 C2)) as [z [Pz Cz]].
    eapply pass_agree; [exact Pz|exact Cz|apply flow_bumps_calm_is_overrides, Cz].
Qed.
