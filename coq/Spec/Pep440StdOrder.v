(* The PUBLIC ordering of PEP 440 (the `_cmpkey` of the reference implementation): like the key order of
   Spec/Pep440Spec.v except that a dev-only release (no pre, no post) sorts BEFORE every pre-release of the same release. *)
From ZV Require Export Str Pep440 OrderFacts Pep440Spec.

(* pre slot: 0 = dev-only marker (lowest), 1 (phase, n) = pre-release, 2 = final / post (highest) *)
Definition std_pre (v : pep) : N * (N * N) :=
  match p_pre_label v with
  | Some l => (1, (label_rank l, num0 (p_pre_num v)))
  | None => if negb (p_post_label v) && p_dev_label v then (0, (0, 0)) else (2, (0, 0))
  end.

Definition pep_std_key (v : pep) :=
  (p_epoch v, strip_zeros (p_release v), std_pre v,
   (if p_post_label v then Some (num0 (p_post_num v)) else None),
   (if p_dev_label v then Some (num0 (p_dev_num v)) else None),
   option_map (map lseg_key) (p_local v)).

Definition pep_std_cmp (a b : pep) : comparison :=
  pair_cmp (pair_cmp (pair_cmp (pair_cmp (pair_cmp
    N.compare
    (lex N.compare))
    (pair_cmp N.compare (pair_cmp N.compare N.compare)))
    (opt_low N.compare))
    (opt_high N.compare))
    (opt_low (lex lseg_key_cmp))
    (pep_std_key a) (pep_std_key b).
