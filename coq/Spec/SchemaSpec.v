(* The schema placement rules of property C12, stated declaratively (not as the validation loops):
   primaries (major/minor/patch) only in core, at most once each and in that order; secondaries (epoch / pre-release /
   post / dev) only in extra-core, at most once each; build holds neither; known timestamp patterns; at least one component. *)
From Coq Require Export Sorted.
From ZV Require Export Zerv.
Open Scope N_scope.

Definition vars_of (l : list component) : list var :=
  flat_map (fun c => match c with CVar v => [v] | _ => [] end) l.

Record Placement (s : schema) : Prop := {
  pl_nonempty : s_core s <> [] \/ s_extra s <> [] \/ s_build s <> [];
  pl_patterns : Forall (fun c => component_ok c = true) (s_core s ++ s_extra s ++ s_build s);
  pl_core_no_secondary : Forall (fun v => is_secondary v = false) (vars_of (s_core s));
  pl_core_ordered : StronglySorted (fun a b => primary_index a < primary_index b) (filter is_primary (vars_of (s_core s)));
  pl_extra_no_primary : Forall (fun v => is_primary v = false) (vars_of (s_extra s));
  pl_extra_once : NoDup (filter is_secondary (vars_of (s_extra s)));
  pl_build_context_only : Forall (fun v => is_primary v = false /\ is_secondary v = false) (vars_of (s_build s))
}.
