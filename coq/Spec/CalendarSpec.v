(* The proleptic Gregorian calendar from first principles: leap rule, month lengths, next day.
   Written from the calendar's definition, not from any closed form. *)
From Coq Require Export ZArith Bool List.
Open Scope Z_scope.

Definition leap (y : Z) : bool := ((y mod 4 =? 0) && negb (y mod 100 =? 0)) || (y mod 400 =? 0).

Definition month_len (y m : Z) : Z :=
  if m =? 2 then (if leap y then 29 else 28)
  else if (m =? 4) || (m =? 6) || (m =? 9) || (m =? 11) then 30 else 31.

Definition valid_date (t : Z * Z * Z) : Prop :=
  let '(y, m, d) := t in 1 <= m <= 12 /\ 1 <= d <= month_len y m.

Definition next_day (t : Z * Z * Z) : Z * Z * Z :=
  let '(y, m, d) := t in
  if d <? month_len y m then (y, m, d + 1)
  else if m <? 12 then (y, m + 1, 1)
  else (y + 1, 1, 1).

(* week number of the year, weeks starting on Monday, by COUNTING: the number of Mondays among the
   days 0..yd of the year, when day 0 of the year falls wd0 days after a Monday *)
Fixpoint mondays_upto (n : nat) (wd0 : Z) : Z :=
  (* Mondays among days 0..n-1 ... counts day k iff (wd0 + k) mod 7 = 0 *)
  match n with
  | O => 0
  | S k => mondays_upto k wd0 + (if (wd0 + Z.of_nat k) mod 7 =? 0 then 1 else 0)
  end.
