(* The order of property C11, as a key and a lexicographic comparison of keys built from the
   generic combinators of Proofs/OrderFacts.v.  Independent of pep_cmp's then_with chain. *)
From ZV Require Export Str Pep440 OrderFacts.

(* release numbers padded with zeros = compared after removing trailing zeros, shorter prefix lower *)
Fixpoint strip_zeros (l : list N) : list N :=
  match l with
  | [] => []
  | x :: l' => match strip_zeros l' with [] => if x =? 0 then [] else [x] | t => x :: t end
  end.

(* local segment: numeric parts by value and below alphabetic parts; alphabetic parts case-insensitively *)
Definition lseg_key (g : lseg) : lseg := match g with LStr s => LStr (map ascii_lower s) | LUInt n => LUInt n end.
Definition lseg_key_cmp (a b : lseg) : comparison :=
  match a, b with
  | LUInt x, LUInt y => N.compare x y
  | LStr x, LStr y => lex N.compare x y
  | LUInt _, LStr _ => Lt
  | LStr _, LUInt _ => Gt
  end.

Definition pep_key_t : Type :=
  (N * list N * option (N * N) * option N * option N * option (list lseg))%type.

Definition pep_key (v : pep) : pep_key_t :=
  (p_epoch v,
   strip_zeros (p_release v),
   match p_pre_label v with Some l => Some (label_rank l, num0 (p_pre_num v)) | None => None end,   (* a < b < rc < none *)
   if p_post_label v then Some (num0 (p_post_num v)) else None,                                     (* none lowest *)
   if p_dev_label v then Some (num0 (p_dev_num v)) else None,                                       (* none highest *)
   option_map (map lseg_key) (p_local v)).                                                          (* none lowest *)

Definition pep_key_cmp : pep_key_t -> pep_key_t -> comparison :=
  pair_cmp (pair_cmp (pair_cmp (pair_cmp (pair_cmp
    N.compare
    (lex N.compare))
    (opt_high (pair_cmp N.compare N.compare)))
    (opt_low N.compare))
    (opt_high N.compare))
    (opt_low (lex lseg_key_cmp)).
