(* The placement rule of property C06 for SemVer output, stated without the processing loop:
   the first three integer-valued core components are major.minor.patch (missing ones 0); every other
   core component and every extra-core component contributes, in schema order, its dot-separated
   pre-release identifiers; build components contribute build metadata. *)
From ZV Require Export Zerv Render.
Open Scope N_scope.

(* integer-valued contribution of a component (value after the integer sanitiser, in u64) *)
Definition int_contrib (vs : vars) (c : component) : option N := u64_value c vs.

(* the core components, each tagged "is one of the first three integer-valued ones" *)
Fixpoint tag_core (vs : vars) (cs : list component) (seen : nat) : list (component * option N) :=
  match cs with
  | [] => []
  | c :: cs' =>
    match int_contrib vs c with
    | Some n => if Nat.ltb seen 3 then (c, Some n) :: tag_core vs cs' (S seen) else (c, None) :: tag_core vs cs' seen
    | None => (c, None) :: tag_core vs cs' seen
    end
  end.

Definition core_numbers (t : list (component * option N)) : list N :=
  flat_map (fun x => match snd x with Some n => [n] | None => [] end) t.

Definition core_rest_ids (vs : vars) (t : list (component * option N)) : list ident :=
  flat_map (fun x => match snd x with Some _ => [] | None => sv_build_ids (fst x) vs end) t.

Definition some_if_nonempty {A} (l : list A) : option (list A) := match l with [] => None | _ => Some l end.

Definition semver_placement (z : zerv) : semver :=
  let vs := z_vars z in
  let t := tag_core vs (s_core (z_schema z)) 0 in
  let nums := core_numbers t in
  {| sv_major := nth 0 nums 0; sv_minor := nth 1 nums 0; sv_patch := nth 2 nums 0;
     sv_pre := some_if_nonempty (core_rest_ids vs t ++ flat_map (fun c => sv_extra_ids c vs) (s_extra (z_schema z)));
     sv_build := some_if_nonempty (flat_map (fun c => sv_build_ids c vs) (s_build (z_schema z))) |}.

(* a component whose variable is unset: it resolves to nothing under every sanitiser *)
Definition unset (c : component) (vs : vars) : Prop :=
  (forall z, comp_value c vs z = None) /\ (forall z, comp_expanded c vs z = []).
