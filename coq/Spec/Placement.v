(* The placement rule of property C06 for SemVer output, stated without the processing loop:
   the first three integer-valued core components are major.minor.patch (missing ones 0); every other
   core component and every extra-core component contributes, in schema order, its dot-separated
   pre-release identifiers; build components contribute build metadata. *)
From ZV Require Export Zerv Render.
Open Scope N_scope.

(* integer-valued contribution of a component (value after the integer sanitiser, in u64) *)
Definition int_contrib (vs : vars) (c : component) : option N := u64_value c vs.

(* the core components, each tagged "is one of the first three integer-valued ones" *)
Fixpoint tag_core (vs : vars) (cs : list component) (seen : nat) : list (component * option N) :=
  match cs with
  | [] => []
  | c :: cs' =>
    match int_contrib vs c with
    | Some n => if Nat.ltb seen 3 then (c, Some n) :: tag_core vs cs' (S seen) else (c, None) :: tag_core vs cs' seen
    | None => (c, None) :: tag_core vs cs' seen
    end
  end.

Definition core_numbers (t : list (component * option N)) : list N :=
  flat_map (fun x => match snd x with Some n => [n] | None => [] end) t.

Definition core_rest_ids (vs : vars) (t : list (component * option N)) : list ident :=
  flat_map (fun x => match snd x with Some _ => [] | None => sv_build_ids (fst x) vs end) t.

Definition some_if_nonempty {A} (l : list A) : option (list A) := match l with [] => None | _ => Some l end.

Definition semver_placement (z : zerv) : semver :=
  let vs := z_vars z in
  let t := tag_core vs (s_core (z_schema z)) 0 in
  let nums := core_numbers t in
  {| sv_major := nth 0 nums 0; sv_minor := nth 1 nums 0; sv_patch := nth 2 nums 0;
     sv_pre := some_if_nonempty (core_rest_ids vs t ++ flat_map (fun c => sv_extra_ids c vs) (s_extra (z_schema z)));
     sv_build := some_if_nonempty (flat_map (fun c => sv_build_ids c vs) (s_build (z_schema z))) |}.

(* a component whose variable is unset: it resolves to nothing under every sanitiser *)
Definition unset (c : component) (vs : vars) : Prop :=
  (forall z, comp_value c vs z = None) /\ (forall z, comp_expanded c vs z = []).

(* ---------------- PEP 440 ---------------- *)
(* The placement rule of property C06 for PEP 440 output, stated without the processing loops, for schemas in which each of epoch /
   pre-release / post / dev occurs at most once in extra-core (the schema validation guarantees it):
   - every core component whose value is an integer below 2^32 is a release number, in schema order ([0] if there is none);
   - in extra-core, the epoch / pre-release / post / dev variables set their field when they have a (u32) value;
   - every other component contributes its dot-separated local segments, in schema order: core first, then extra-core, then build;
   - then normal form. *)
Definition olist_l {A} (o : option (list A)) : list A := match o with Some l => l | None => [] end.

Definition pep_release_of (vs : vars) (core : list component) : list N :=
  match flat_map (fun c => match u32_value c vs with Some n => [n] | None => [] end) core with [] => [0] | r => r end.

Definition pep_core_local (vs : vars) (core : list component) : list lseg :=
  flat_map (fun c => match u32_value c vs with Some _ => [] | None => olist_l (local_value c vs) end) core.

Definition is_sec_comp (c : component) : bool := match c with CVar v => is_secondary v | _ => false end.

Definition pep_extra_local (vs : vars) (extra : list component) : list lseg :=
  flat_map (fun c => if is_sec_comp c then [] else olist_l (local_value c vs)) extra.

Definition pep_build_local (vs : vars) (build : list component) : list lseg := flat_map (fun c => olist_l (local_value c vs)) build.

Definition owns (v : var) (c : component) : bool := match c with CVar w => var_eqb v w | _ => false end.
Definition has_var (v : var) (l : list component) : bool := existsb (owns v) l.

(* what the pre-release variable sets (from the state "nothing set") *)
Definition pre_of_vars (vs : vars) : option label * option N :=
  match var_expanded PreRelease vs pep440_local_str with
  | e0 :: rest =>
    if nonempty e0 then
      (label_of_str e0, match rest with e1 :: _ => if nonempty e1 then parse_u32 e1 else None | [] => None end)
    else (None, None)
  | [] => (None, None)
  end.

Definition pep_placement (z : zerv) : pep :=
  let vs := z_vars z in
  let sc := z_schema z in
  let ex := s_extra sc in
  let ep := if has_var Epoch ex then match u32_value (CVar Epoch) vs with Some n => n | None => 0 end else 0 in
  let pre := if has_var PreRelease ex then pre_of_vars vs else (None, None) in
  let po := if has_var Post ex then u32_value (CVar Post) vs else None in
  let dv := if has_var Dev ex then u32_value (CVar Dev) vs else None in
  pep_normalize
    {| p_epoch := ep; p_release := pep_release_of vs (s_core sc);
       p_pre_label := fst pre; p_pre_num := snd pre;
       p_post_label := is_some po; p_post_num := po; p_dev_label := is_some dv; p_dev_num := dv;
       p_local := some_if_nonempty (pep_core_local vs (s_core sc) ++ pep_extra_local vs ex ++ pep_build_local vs (s_build sc)) |}.
