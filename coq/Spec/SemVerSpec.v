(* SemVer 2.0.0 section 11 (precedence), transcribed clause by clause as an inductive strict order.
   Independent of Model/SemVer.v's comparison functions. *)
From ZV Require Export Str SemVer.

(* "lexically in ASCII sort order" *)
Inductive str_lt : str -> str -> Prop :=
| sl_nil y l : str_lt [] (y :: l)
| sl_hd x y a b : x < y -> str_lt (x :: a) (y :: b)
| sl_tl x a b : str_lt a b -> str_lt (x :: a) (x :: b).

Inductive id_lt : ident -> ident -> Prop :=
| id_num x y : x < y -> id_lt (IUInt x) (IUInt y)       (* 11.4.1 only digits: compared numerically *)
| id_str x y : str_lt x y -> id_lt (IStr x) (IStr y)    (* 11.4.2 letters or hyphens: lexically in ASCII order *)
| id_num_str x y : id_lt (IUInt x) (IStr y).            (* 11.4.3 numeric lower than non-numeric *)

(* 11.4: compare each dot separated identifier from left to right until a difference is found;
   11.4.4: a larger set of fields is higher, if all the preceding identifiers are equal *)
Inductive ids_lt : list ident -> list ident -> Prop :=
| ids_nil y r : ids_lt [] (y :: r)
| ids_hd x y l r : id_lt x y -> ids_lt (x :: l) (y :: r)
| ids_tl x l r : ids_lt l r -> ids_lt (x :: l) (x :: r).

(* 11.2 major, minor, patch numerically; 11.3 a pre-release version has lower precedence than the
   associated normal version; 11.4 two pre-releases by their identifiers. Build metadata does not occur. *)
Inductive sv_lt (a b : semver) : Prop :=
| sv_major_lt : sv_major a < sv_major b -> sv_lt a b
| sv_minor_lt : sv_major a = sv_major b -> sv_minor a < sv_minor b -> sv_lt a b
| sv_patch_lt : sv_major a = sv_major b -> sv_minor a = sv_minor b -> sv_patch a < sv_patch b -> sv_lt a b
| sv_pre_rel p : sv_major a = sv_major b -> sv_minor a = sv_minor b -> sv_patch a = sv_patch b ->
                 sv_pre a = Some p -> sv_pre b = None -> sv_lt a b
| sv_pre_ids p q : sv_major a = sv_major b -> sv_minor a = sv_minor b -> sv_patch a = sv_patch b ->
                   sv_pre a = Some p -> sv_pre b = Some q -> ids_lt p q -> sv_lt a b.

(* the part of a version that precedence looks at *)
Definition sv_key (v : semver) := (sv_major v, sv_minor v, sv_patch v, sv_pre v).
