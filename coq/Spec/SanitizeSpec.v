(* Independent statement of the sanitiser contract (property C16), written from the
   property text, not from the Rust. *)
From ZV Require Export Str.

(* split at EVERY character satisfying p (pieces may be empty) *)
Fixpoint split_by (p : cp -> bool) (s : str) : list str :=
  match s with
  | [] => [[]]
  | x :: s' =>
      if p x then [] :: split_by p s'
      else match split_by p s' with
           | h :: t => (x :: h) :: t
           | [] => [[x]]
           end
  end.

Definition is_nil (s : str) : bool := match s with [] => true | _ => false end.
Definition non_alnum (c : cp) : bool := negb (is_ascii_alnum c).

(* the maximal runs of ASCII letters and digits of s, in order *)
Definition ascii_runs (s : str) : list str :=
  filter (fun r => negb (is_nil r)) (split_by non_alnum s).

(* an all-digit run without its leading zeros (one digit is kept) *)
Definition fix0 (r : str) : str :=
  if all_b is_ascii_digit r
  then match drop_while (N.eqb c_0) r with [] => (match r with [] => [] | _ => [c_0] end) | t => t end
  else r.

Definition has_leading_zero (r : str) : bool :=
  all_b is_ascii_digit r && match r with a :: _ :: _ => N.eqb a c_0 | _ => false end.

(* Contract of a result r for separator c: r is a list of non-empty ASCII-alphanumeric
   segments joined by single separators (so: no other character, no leading /
   trailing / doubled separator) ... *)
Record contract (c : cp) (lower keep : bool) (mx : option nat) (r : str) : Prop := {
  ct_segs : exists segs, r = intercalate [c] segs
            /\ Forall (fun g => g <> [] /\ Forall (fun x => is_ascii_alnum x = true) g) segs
            /\ (keep = false -> Forall (fun g => has_leading_zero g = false) segs)
            /\ (lower = true -> Forall (Forall (fun x => is_ascii_upper x = false)) segs);
  ct_len : match mx with Some m => (length r <= m)%nat | None => True end
}.

(* ---- executable forms (extracted; run as oracles on implementation outputs) ---- *)
Definition seg_ok_b (lower keep : bool) (g : str) : bool :=
  negb (is_nil g) && forallb is_ascii_alnum g
  && (keep || negb (has_leading_zero g))
  && (negb lower || forallb (fun x => negb (is_ascii_upper x)) g).

Definition contract_b (c : cp) (lower keep : bool) (mx : option nat) (r : str) : bool :=
  (is_nil r || forallb (seg_ok_b lower keep) (split_on c r))
  && match mx with Some m => Nat.leb (length r) m | None => true end.

(* the unbounded result, as the property states it *)
Definition spec_sanitize (c : cp) (lower keep : bool) (s : str) : str :=
  intercalate [c]
    (map (fun r => if keep then r else fix0 r)
         (ascii_runs (if lower then map ascii_lower s else s))).

(* the integer sanitiser on an input without surrounding white space *)
Definition uint_spec (s : str) : str :=
  if negb (is_nil s) && forallb is_ascii_digit s
  then match drop_while (N.eqb c_0) s with [] => [c_0] | t => t end
  else [].
