(* Executable statement of "a PEP 440 value in normal form with numbers below 2^32" - the hypothesis of the round-trip theorem
   (Proofs/PepRoundTrip.v); extracted and evaluated on every value the parser returns in the correspondence runs. *)
From ZV Require Export Str Dec SanitizeSpec Pep440.
Open Scope N_scope.

Definition nonempty_l {A} (l : list A) : bool := match l with [] => false | _ => true end.
Definition u32_b (n : N) : bool := n <? 4294967296.
Definition lseg_nf_b (g : lseg) : bool :=
  match g with
  | LUInt n => u32_b n
  | LStr s => nonempty_l s && forallb is_ascii_alnum s && forallb (fun x => negb (is_ascii_upper x)) s && negb (has_leading_zero s)
              && match parse_u32 s with None => true | Some _ => false end
  end.
Definition opt_u32_b (o : option N) : bool := match o with Some n => u32_b n | None => false end.
Definition pep_nf_b (p : pep) : bool :=
  u32_b (p_epoch p) && nonempty_l (p_release p) && forallb u32_b (p_release p)
  && (match p_pre_label p with Some _ => opt_u32_b (p_pre_num p) | None => match p_pre_num p with None => true | Some _ => false end end)
  && (if p_post_label p then opt_u32_b (p_post_num p) else match p_post_num p with None => true | Some _ => false end)
  && (if p_dev_label p then opt_u32_b (p_dev_num p) else match p_dev_num p with None => true | Some _ => false end)
  && (match p_local p with Some l => nonempty_l l && forallb lseg_nf_b l | None => true end).
