(* Extraction of the executable model and oracles.  ExtrOcamlBasic only: numbers stay
   the extracted inductives (positive / N / Z / nat). *)
From Coq Require Import ExtrOcamlBasic ZArith.
From ZV Require Import Str Dec Rx RegexSrc Sanitize SanitizeSpec SemVer Pep440 Calendar Timestamp Zerv Render Convert Bump Ron RonRead Cli Hash Flow Template Git PyApi PyApiGen Pep440Nf.
Extraction Language OCaml.
Extraction "Extract/model.ml"
  N.div N.modulo N.add N.mul Z.add
  Str.byte_len Str.str_eqb Str.is_whitespace Str.is_ascii_alnum
  Sanitize.sanitize Sanitize.custom_str Sanitize.semver_str Sanitize.pep440_local_str
  Sanitize.uint_sanitizer Sanitize.key_sanitizer
  SanitizeSpec.contract_b SanitizeSpec.spec_sanitize SanitizeSpec.uint_spec
  Dec.parse_dec Dec.print_dec Rx.rx_accepts
  RegexSrc.semver_src RegexSrc.semver_spec RegexSrc.semver_atom_of
  SemVer.semver_parse SemVer.semver_extract SemVer.semver_print SemVer.semver_cmp SemVer.semver_eqb
  SemVer.max_by_last SemVer.semver_check SemVer.strip_v SemVer.semver_docker
  RegexSrc.pep440_src RegexSrc.pep440_spec RegexSrc.pep440_atom_of
  Pep440.pep_parse Pep440.pep_extract Pep440.pep_print Pep440.pep_cmp Pep440.pep_eqb Pep440.pep_check
  Pep440.pep_caps
  Timestamp.resolve_timestamp Timestamp.is_valid_timestamp_pattern Calendar.dt_of_secs Timestamp.u64_as_i64
  Zerv.schema_validate Zerv.default_prec Zerv.comp_value Zerv.comp_expanded Render.semver_of_zerv Render.pep_of_zerv Render.schema_with_zerv Render.fixed_schema
  Convert.render_cmd Convert.zerv_of_semver Convert.zerv_of_pep Convert.parse_version Convert.format_zerv
  Bump.apply_component_processing Bump.prec_order Cli.version_zerv Cli.version_output Cli.to_zerv Cli.validate_args Cli.resolve_args
  Ron.zerv_ron Ron.obj_insert Ron.ron_string RonRead.ron_string_document RonRead.ron_read_string Str.is_ascii
  Template.ctx_of_zerv Template.fn_hash Template.fn_hash_int Template.fn_prefix Template.fn_prefix_if Template.fn_sanitize_preset Template.fn_sanitize_custom
  Template.fn_format_timestamp Template.template_finish Template.pre_label_long Template.pre_label_code Zerv.short_hash Zerv.s_true Zerv.s_false
  PyApi.py_argv PyApiGen.py_version_base PyApiGen.py_version_table PyApiGen.py_flow_base PyApiGen.py_flow_table PyApiGen.py_check_base PyApiGen.py_check_table
  PyApiGen.py_render_base PyApiGen.py_render_table
  Pep440Nf.pep_nf_b
  Git.git_vars Git.topo_ok Git.latest_tag Git.distance Git.ancestors
  Hash.hash_str Hash.hash_int Hash.hash_hex Flow.flow_zerv Flow.flow_output Flow.resolve_for_branch Flow.default_rules Flow.rule_valid.
