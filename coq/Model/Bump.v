(* Model of src/version/zerv/bump/{mod,reset,vars_primary,vars_secondary,schema_parsing,schema_processing}.rs.
   No proofs here. *)
From ZV Require Export Zerv Render Convert.
Open Scope N_scope.

(* resolved arguments (cli/version/args/resolved.rs), numbers already parsed *)
Record bargs := {
  ro_major : option N; ro_minor : option N; ro_patch : option N; ro_epoch : option N;
  ro_post : option N; ro_dev : option N; ro_pre_num : option N; ro_pre_label : option str;
  ro_core : list str; ro_extra : list str; ro_build : list str;
  rb_major : option N; rb_minor : option N; rb_patch : option N; rb_epoch : option N;
  rb_post : option N; rb_dev : option N; rb_pre_num : option N; rb_pre_label : option str;
  rb_core : list str; rb_extra : list str; rb_build : list str
}.

Definition prec_eqb (a b : prec) : bool :=
  match a, b with
  | PEpoch, PEpoch | PMajor, PMajor | PMinor, PMinor | PPatch, PPatch | PCore, PCore | PPreLabel, PPreLabel
  | PPreNum, PPreNum | PPost, PPost | PDev, PDev | PExtraCore, PExtraCore | PBuild, PBuild => true
  | _, _ => false
  end.

(* PrecedenceOrder::from_precedences collects into an IndexMap: a repeated level keeps its first position *)
Fixpoint dedup_prec (l : list prec) (seen : list prec) : list prec :=
  match l with
  | [] => []
  | p :: l' => if existsb (prec_eqb p) seen then dedup_prec l' seen else p :: dedup_prec l' (p :: seen)
  end.
Definition prec_order (s : schema) : list prec := dedup_prec (s_prec s) [].

(* ---- vars updates ---- *)
Definition set_major (vs : vars) (x : option N) : vars :=
  {| v_major := x; v_minor := v_minor vs; v_patch := v_patch vs; v_epoch := v_epoch vs; v_pre := v_pre vs; v_post := v_post vs; v_dev := v_dev vs;
     v_distance := v_distance vs; v_dirty := v_dirty vs; v_bumped_branch := v_bumped_branch vs; v_bumped_hash := v_bumped_hash vs; v_bumped_ts := v_bumped_ts vs;
     v_last_branch := v_last_branch vs; v_last_hash := v_last_hash vs; v_last_ts := v_last_ts vs; v_last_tag := v_last_tag vs; v_custom := v_custom vs |}.
Definition set_minor (vs : vars) (x : option N) : vars :=
  {| v_major := v_major vs; v_minor := x; v_patch := v_patch vs; v_epoch := v_epoch vs; v_pre := v_pre vs; v_post := v_post vs; v_dev := v_dev vs;
     v_distance := v_distance vs; v_dirty := v_dirty vs; v_bumped_branch := v_bumped_branch vs; v_bumped_hash := v_bumped_hash vs; v_bumped_ts := v_bumped_ts vs;
     v_last_branch := v_last_branch vs; v_last_hash := v_last_hash vs; v_last_ts := v_last_ts vs; v_last_tag := v_last_tag vs; v_custom := v_custom vs |}.
Definition set_patch (vs : vars) (x : option N) : vars :=
  {| v_major := v_major vs; v_minor := v_minor vs; v_patch := x; v_epoch := v_epoch vs; v_pre := v_pre vs; v_post := v_post vs; v_dev := v_dev vs;
     v_distance := v_distance vs; v_dirty := v_dirty vs; v_bumped_branch := v_bumped_branch vs; v_bumped_hash := v_bumped_hash vs; v_bumped_ts := v_bumped_ts vs;
     v_last_branch := v_last_branch vs; v_last_hash := v_last_hash vs; v_last_ts := v_last_ts vs; v_last_tag := v_last_tag vs; v_custom := v_custom vs |}.
Definition set_epoch (vs : vars) (x : option N) : vars :=
  {| v_major := v_major vs; v_minor := v_minor vs; v_patch := v_patch vs; v_epoch := x; v_pre := v_pre vs; v_post := v_post vs; v_dev := v_dev vs;
     v_distance := v_distance vs; v_dirty := v_dirty vs; v_bumped_branch := v_bumped_branch vs; v_bumped_hash := v_bumped_hash vs; v_bumped_ts := v_bumped_ts vs;
     v_last_branch := v_last_branch vs; v_last_hash := v_last_hash vs; v_last_ts := v_last_ts vs; v_last_tag := v_last_tag vs; v_custom := v_custom vs |}.
Definition set_pre (vs : vars) (x : option prevar) : vars :=
  {| v_major := v_major vs; v_minor := v_minor vs; v_patch := v_patch vs; v_epoch := v_epoch vs; v_pre := x; v_post := v_post vs; v_dev := v_dev vs;
     v_distance := v_distance vs; v_dirty := v_dirty vs; v_bumped_branch := v_bumped_branch vs; v_bumped_hash := v_bumped_hash vs; v_bumped_ts := v_bumped_ts vs;
     v_last_branch := v_last_branch vs; v_last_hash := v_last_hash vs; v_last_ts := v_last_ts vs; v_last_tag := v_last_tag vs; v_custom := v_custom vs |}.
Definition set_post (vs : vars) (x : option N) : vars :=
  {| v_major := v_major vs; v_minor := v_minor vs; v_patch := v_patch vs; v_epoch := v_epoch vs; v_pre := v_pre vs; v_post := x; v_dev := v_dev vs;
     v_distance := v_distance vs; v_dirty := v_dirty vs; v_bumped_branch := v_bumped_branch vs; v_bumped_hash := v_bumped_hash vs; v_bumped_ts := v_bumped_ts vs;
     v_last_branch := v_last_branch vs; v_last_hash := v_last_hash vs; v_last_ts := v_last_ts vs; v_last_tag := v_last_tag vs; v_custom := v_custom vs |}.
Definition set_dev (vs : vars) (x : option N) : vars :=
  {| v_major := v_major vs; v_minor := v_minor vs; v_patch := v_patch vs; v_epoch := v_epoch vs; v_pre := v_pre vs; v_post := v_post vs; v_dev := x;
     v_distance := v_distance vs; v_dirty := v_dirty vs; v_bumped_branch := v_bumped_branch vs; v_bumped_hash := v_bumped_hash vs; v_bumped_ts := v_bumped_ts vs;
     v_last_branch := v_last_branch vs; v_last_hash := v_last_hash vs; v_last_ts := v_last_ts vs; v_last_tag := v_last_tag vs; v_custom := v_custom vs |}.

(* ---- reset.rs ---- *)
Definition reset_level (vs : vars) (p : prec) : vars :=
  match p with
  | PEpoch => set_epoch vs (Some 0)
  | PMajor => set_major vs (Some 0)
  | PMinor => set_minor vs (Some 0)
  | PPatch => set_patch vs (Some 0)
  | PPreLabel => set_pre vs None
  | PPreNum => match v_pre vs with Some pr => set_pre vs (Some {| pr_label := pr_label pr; pr_num := Some 0 |}) | None => vs end
  | PPost => set_post vs None
  | PDev => set_dev vs None
  | _ => vs
  end.

(* levels after p in the order; None when p is not in the order *)
Fixpoint levels_after (order : list prec) (p : prec) : option (list prec) :=
  match order with
  | [] => None
  | q :: rest => if prec_eqb q p then Some rest else levels_after rest p
  end.

Definition reset_lower (order : list prec) (vs : vars) (p : prec) : option vars :=
  match levels_after order p with
  | Some later => Some (fold_left reset_level later vs)
  | None => None
  end.

(* ---- field processors: override, then bump + reset; None = Err ---- *)
Definition u64_add (a b : N) : option N := if a + b <? 18446744073709551616 then Some (a + b) else None.
Definition n0 (o : option N) : N := match o with Some n => n | None => 0 end.

Definition process_num (order : list prec) (get : vars -> option N) (set : vars -> option N -> vars) (lvl : prec)
           (ov bv : option N) (vs : vars) : option vars :=
  let vs1 := match ov with Some x => set vs (Some x) | None => vs end in
  match bv with
  | Some inc => match u64_add (n0 (get vs1)) inc with
                | Some s => reset_lower order (set vs1 (Some s)) lvl
                | None => None
                end
  | None => Some vs1
  end.

Definition process_major o := process_num o v_major set_major PMajor.
Definition process_minor o := process_num o v_minor set_minor PMinor.
Definition process_patch o := process_num o v_patch set_patch PPatch.
Definition process_epoch o := process_num o v_epoch set_epoch PEpoch.
Definition process_post o := process_num o v_post set_post PPost.
Definition process_dev o := process_num o v_dev set_dev PDev.

(* FromStr for PreReleaseLabel: exactly alpha | beta | rc *)
Definition label_exact (s : str) : option label :=
  if str_eqb s L_alpha then Some Alpha else if str_eqb s L_beta then Some Beta else if str_eqb s L_rc then Some Rc else None.

Definition process_pre_label (order : list prec) (a : bargs) (vs : vars) : option vars :=
  let step1 :=
    match ro_pre_label a with
    | Some l =>
      match label_try l with
      | Some lab =>
        let existing := match v_pre vs with Some pr => pr_num pr | None => None end in
        let num := match ro_pre_num a with Some n => Some n | None => match existing with Some n => Some n | None => Some 0 end end in
        Some (set_pre vs (Some {| pr_label := lab; pr_num := num |}))
      | None => None
      end
    | None => Some vs
    end in
  match step1 with
  | None => None
  | Some vs1 =>
    match rb_pre_label a with
    | Some l =>
      match label_exact l with
      | Some lab =>
        match reset_lower order vs1 PPreLabel with
        | Some vs2 => Some (set_pre vs2 (Some {| pr_label := lab; pr_num := Some 0 |}))
        | None => None
        end
      | None => None
      end
    | None => Some vs1
    end
  end.

Definition process_pre_num (order : list prec) (ov bv : option N) (vs : vars) : option vars :=
  let vs1 :=
    match ov with
    | Some n => match v_pre vs with
                | None => set_pre vs (Some {| pr_label := Alpha; pr_num := Some n |})
                | Some pr => set_pre vs (Some {| pr_label := pr_label pr; pr_num := Some n |})
                end
    | None => vs
    end in
  match bv with
  | Some inc =>
    match v_pre vs1 with
    | Some pr => match u64_add (n0 (pr_num pr)) inc with
                 | Some s => reset_lower order (set_pre vs1 (Some {| pr_label := pr_label pr; pr_num := Some s |})) PPreNum
                 | None => None
                 end
    | None => reset_lower order (set_pre vs1 (Some {| pr_label := Alpha; pr_num := Some inc |})) PPreNum
    end
  | None => Some vs1
  end.

(* ---- schema_parsing.rs ---- *)
(* str::parse::<isize>: optional sign, digits; value within i64 *)
Definition parse_isize (s : str) : option Z :=
  match s with
  | [] => None
  | c :: t =>
    let '(neg, digits) := if c =? 45 then (true, t) else if c =? 43 then (false, t) else (false, s) in
    match parse_dec digits with
    | Some n => let z := if neg then (- Z.of_N n)%Z else Z.of_N n in
                if ((-9223372036854775808 <=? z) && (z <=? 9223372036854775807))%Z then Some z else None
    | None => None
    end
  end.

Definition parse_i32 (s : str) : option Z :=
  match parse_isize s with
  | Some z => if ((-2147483648 <=? z) && (z <=? 2147483647))%Z then Some z else None
  | None => None
  end.

Definition parse_index (len : nat) (s : str) : option nat :=
  let idx :=
    match s with
    | c :: t => if c =? 126 then                         (* ~N *)
                  match parse_isize t with
                  | Some n => if (n <=? 0)%Z then None else Some (- n)%Z
                  | None => None
                  end
                else parse_isize s
    | [] => parse_isize s
    end in
  match idx with
  | None => None
  | Some i =>
    let l := Z.of_nat len in
    if (0 <=? i)%Z then (if (i <? l)%Z then Some (Z.to_nat i) else None)
    else let c := (l + i)%Z in if ((0 <=? c) && (c <? l))%Z then Some (Z.to_nat c) else None
  end.

(* parse_value: a value that parses as a negative i32 is refused *)
Definition parse_value (s : str) : option str :=
  match parse_i32 s with Some z => if (z <? 0)%Z then None else Some s | None => Some s end.

Definition c_eq : cp := 61.
Definition s_one : str := [49].

(* split_once('=') *)
Definition parse_override_spec (len : nat) (spec : str) : option (nat * str) :=
  match split_first c_eq spec with
  | (i, Some v) => match parse_index len i, parse_value v with Some ix, Some vv => Some (ix, vv) | _, _ => None end
  | (_, None) => None
  end.

Definition parse_bump_spec (len : nat) (spec : str) : option (nat * str) :=
  match split_first c_eq spec with
  | (i, Some v) => match parse_index len i, parse_value v with Some ix, Some vv => Some (ix, vv) | _, _ => None end
  | (i, None) => match parse_index len i with Some ix => Some (ix, s_one) | None => None end
  end.

Definition pspec : Type := (nat * option str * option str)%type.

Fixpoint parse_overrides (len : nat) (l : list str) (seen : list nat) : option (list pspec) :=
  match l with
  | [] => Some []
  | s :: l' =>
    match parse_override_spec len s with
    | Some (ix, v) => if existsb (Nat.eqb ix) seen then None
                      else match parse_overrides len l' (ix :: seen) with Some r => Some ((ix, Some v, None) :: r) | None => None end
    | None => None
    end
  end.

Fixpoint merge_bump (specs : list pspec) (ix : nat) (v : str) : list pspec :=
  match specs with
  | [] => [(ix, None, Some v)]
  | (i, o, b) :: rest => if Nat.eqb i ix then (i, o, Some v) :: rest else (i, o, b) :: merge_bump rest ix v
  end.

Fixpoint parse_bumps (len : nat) (l : list str) (seen : list nat) (specs : list pspec) : option (list pspec) :=
  match l with
  | [] => Some specs
  | s :: l' =>
    match parse_bump_spec len s with
    | Some (ix, v) => if existsb (Nat.eqb ix) seen then None else parse_bumps len l' (ix :: seen) (merge_bump specs ix v)
    | None => None
    end
  end.

(* stable insertion sort by index *)
Fixpoint insert_spec (x : pspec) (l : list pspec) : list pspec :=
  match l with
  | [] => [x]
  | y :: l' => if Nat.leb (fst (fst y)) (fst (fst x)) then y :: insert_spec x l' else x :: l
  end.
Definition sort_specs (l : list pspec) : list pspec := fold_left (fun acc x => insert_spec x acc) l [].

Definition parse_specs (len : nat) (ovs bvs : list str) : option (list pspec) :=
  match parse_overrides len ovs [] with
  | Some specs => match parse_bumps len bvs [] specs with Some all => Some (sort_specs all) | None => None end
  | None => None
  end.

(* ---- schema_processing.rs ---- *)
Inductive section := SCore | SExtra | SBuild.
Definition get_part (s : schema) (sec : section) : list component :=
  match sec with SCore => s_core s | SExtra => s_extra s | SBuild => s_build s end.
Definition set_part (s : schema) (sec : section) (l : list component) : option schema :=
  let s' := match sec with
            | SCore => {| s_core := l; s_extra := s_extra s; s_build := s_build s; s_prec := s_prec s |}
            | SExtra => {| s_core := s_core s; s_extra := l; s_build := s_build s; s_prec := s_prec s |}
            | SBuild => {| s_core := s_core s; s_extra := s_extra s; s_build := l; s_prec := s_prec s |}
            end in
  if schema_validate s' then Some s' else None.

Fixpoint replace_nth {A} (n : nat) (x : A) (l : list A) : list A :=
  match n, l with
  | O, _ :: t => x :: t
  | S k, h :: t => h :: replace_nth k x t
  | _, [] => []
  end.

Definition opt_u32 (o : option str) : option (option N) :=      (* parse_optional_u32; None = Err *)
  match o with None => Some None | Some s => match parse_u32 s with Some n => Some (Some n) | None => None end end.

Definition process_var_field (order : list prec) (v : var) (ov bv : option str) (vs : vars) : option vars :=
  match opt_u32 ov, opt_u32 bv with
  | Some o, Some b =>
    match v with
    | Major => process_major order o b vs | Minor => process_minor order o b vs | Patch => process_patch order o b vs
    | Epoch => process_epoch order o b vs | Post => process_post order o b vs | Dev => process_dev order o b vs
    | PreRelease => process_pre_num order o b vs
    | _ => None
    end
  | _, _ => None
  end.

Definition process_component (sec : section) (ix : nat) (ov bv : option str) (z : zerv) : option zerv :=
  let comps := get_part (z_schema z) sec in
  match nth_error comps ix with
  | None => None
  | Some (CVar (Ts _)) => None
  | Some (CVar v) =>
    match process_var_field (prec_order (z_schema z)) v ov bv (z_vars z) with
    | Some vs => Some {| z_schema := z_schema z; z_vars := vs |}
    | None => None
    end
  | Some (CStr cur) =>
    let v1 := match ov with Some x => x | None => cur end in
    let v2 := match bv with Some x => x | None => v1 end in
    match set_part (z_schema z) sec (replace_nth ix (CStr v2) comps) with
    | Some s => Some {| z_schema := s; z_vars := z_vars z |}
    | None => None
    end
  | Some (CUInt cur) =>
    match opt_u32 ov, opt_u32 bv with
    | Some o, Some b =>
      let base := match o with Some x => x | None => cur end in
      match (match b with Some inc => u64_add base inc | None => Some base end) with
      | Some nv => match set_part (z_schema z) sec (replace_nth ix (CUInt nv) comps) with
                   | Some s => Some {| z_schema := s; z_vars := z_vars z |}
                   | None => None
                   end
      | None => None
      end
    | _, _ => None
    end
  end.

Definition process_section (sec : section) (ovs bvs : list str) (z : zerv) : option zerv :=
  match parse_specs (length (get_part (z_schema z) sec)) ovs bvs with
  | Some specs =>
    fold_left (fun acc sp => match acc with
                             | Some z' => let '(ix, o, b) := sp in process_component sec ix o b z'
                             | None => None end) specs (Some z)
  | None => None
  end.

(* ---- mod.rs: apply_component_processing (without the clock step) ---- *)
Definition with_vars (z : zerv) (o : option vars) : option zerv :=
  match o with Some vs => Some {| z_schema := z_schema z; z_vars := vs |} | None => None end.

Definition process_level (a : bargs) (z : zerv) (p : prec) : option zerv :=
  let order := prec_order (z_schema z) in
  match p with
  | PEpoch => with_vars z (process_epoch order (ro_epoch a) (rb_epoch a) (z_vars z))
  | PMajor => with_vars z (process_major order (ro_major a) (rb_major a) (z_vars z))
  | PMinor => with_vars z (process_minor order (ro_minor a) (rb_minor a) (z_vars z))
  | PPatch => with_vars z (process_patch order (ro_patch a) (rb_patch a) (z_vars z))
  | PCore => process_section SCore (ro_core a) (rb_core a) z
  | PPreLabel => with_vars z (process_pre_label order a (z_vars z))
  | PPreNum => with_vars z (process_pre_num order (ro_pre_num a) (rb_pre_num a) (z_vars z))
  | PPost => with_vars z (process_post order (ro_post a) (rb_post a) (z_vars z))
  | PDev => with_vars z (process_dev order (ro_dev a) (rb_dev a) (z_vars z))
  | PExtraCore => process_section SExtra (ro_extra a) (rb_extra a) z
  | PBuild => process_section SBuild (ro_build a) (rb_build a) z
  end.

Definition apply_component_processing (a : bargs) (z : zerv) : option zerv :=
  fold_left (fun acc p => match acc with Some z' => process_level a z' p | None => None end)
            (prec_order (z_schema z)) (Some z).
