(* Model of src/version/semver/{core,parser,display,ordering}.rs and of `zerv check --format semver`.
   No proofs here. *)
From ZV Require Export Str Dec Rx RegexSrc.

Inductive ident := IStr (s : str) | IUInt (n : N).

Record semver := {
  sv_major : N; sv_minor : N; sv_patch : N;
  sv_pre : option (list ident);
  sv_build : option (list ident)
}.

(* ---------------- display.rs ---------------- *)
Definition ident_print (i : ident) : str :=
  match i with IStr s => s | IUInt n => print_dec n end.

Definition idents_print (l : list ident) : str := intercalate [c_dot] (map ident_print l).

Definition release_print (a b c : N) : str :=
  print_dec a ++ [c_dot] ++ print_dec b ++ [c_dot] ++ print_dec c.

(* format_semver_with_separators *)
Definition opt_part (sep : str) (o : option (list ident)) : str :=
  match o with
  | None => []
  | Some [] => []
  | Some p => sep ++ idents_print p
  end.

Definition semver_print_sep (v : semver) (pre_sep build_sep : str) : str :=
  release_print (sv_major v) (sv_minor v) (sv_patch v)
  ++ opt_part pre_sep (sv_pre v) ++ opt_part build_sep (sv_build v).

Definition semver_print (v : semver) : str := semver_print_sep v [c_dash] [c_plus].
Definition semver_docker (v : semver) : str := semver_print_sep v [c_dash] [c_dash].

(* ---------------- parser.rs ---------------- *)
(* split at the first occurrence of c *)
Fixpoint split_first (c : cp) (s : str) : str * option str :=
  match s with
  | [] => ([], None)
  | x :: s' => if N.eqb x c then ([], Some s')
               else let (a, b) := split_first c s' in (x :: a, b)
  end.

Definition is_ident_char (c : cp) : bool := is_ascii_alnum c || (c =? 45).

(* classification used by parse_identifiers / parse_build_metadata:
   all digits and (part == "0" or no leading '0')  *)
Definition numeric_like (p : str) : bool :=
  all_b is_ascii_digit p && (match p with [c] => true | c :: _ => negb (c =? 48) | [] => true end).

(* pre-release identifier: digits that do not fit u64 are kept as a string *)
Definition parse_pre_ident (p : str) : option ident :=
  match p with
  | [] => None
  | _ =>
    if negb (all_b is_ident_char p) then None
    else if all_b is_ascii_digit p then
      (if numeric_like p then match parse_u64 p with Some n => Some (IUInt n) | None => Some (IStr p) end
       else None)                                  (* leading zeros: not in the grammar *)
    else Some (IStr p)
  end.

(* build identifier: digits that do not fit u64 are kept as a string *)
Definition parse_build_ident (p : str) : option ident :=
  match p with
  | [] => None
  | _ =>
    if negb (all_b is_ident_char p) then None
    else if numeric_like p then
      match parse_u64 p with Some n => Some (IUInt n) | None => Some (IStr p) end
    else Some (IStr p)
  end.

Fixpoint map_opt {A B} (f : A -> option B) (l : list A) : option (list B) :=
  match l with
  | [] => Some []
  | x :: l' => match f x, map_opt f l' with Some y, Some ys => Some (y :: ys) | _, _ => None end
  end.

Definition parse_core_num (p : str) : option N :=
  if canonical_dec p then parse_u64 p else None.

Definition strip_v (s : str) : str :=
  match s with c :: t => if c =? 118 then t else s | [] => s end.

(* the captures of SEMVER_REGEX and their conversion, as a scanner *)
Definition semver_extract (s : str) : option semver :=
  let s := strip_v s in
  let (main, build) := split_first c_plus s in
  let (core, pre) := split_first c_dash main in
  match split_on c_dot core with
  | [a; b; c] =>
    match parse_core_num a, parse_core_num b, parse_core_num c with
    | Some ma, Some mi, Some pa =>
      let pre' := match pre with
                  | None => Some None
                  | Some p => match map_opt parse_pre_ident (split_on c_dot p) with
                              | Some l => Some (Some l) | None => None end
                  end in
      let build' := match build with
                    | None => Some None
                    | Some b => match map_opt parse_build_ident (split_on c_dot b) with
                                | Some l => Some (Some l) | None => None end
                    end in
      match pre', build' with
      | Some p, Some b => Some {| sv_major := ma; sv_minor := mi; sv_patch := pa; sv_pre := p; sv_build := b |}
      | _, _ => None
      end
    | _, _, _ => None
    end
  | _ => None
  end.

(* SemVer::from_str: acceptance is decided by the regex regenerated from the source *)
Definition semver_parse (s : str) : option semver :=
  if rx_accepts semver_src (map semver_atom_of s) then semver_extract s else None.

(* ---------------- ordering.rs ---------------- *)
Fixpoint str_cmp (a b : str) : comparison :=
  match a, b with
  | [], [] => Eq
  | [], _ :: _ => Lt
  | _ :: _, [] => Gt
  | x :: a', y :: b' => match N.compare x y with Eq => str_cmp a' b' | r => r end
  end.

Definition ident_cmp (a b : ident) : comparison :=
  match a, b with
  | IUInt x, IUInt y => N.compare x y
  | IStr x, IStr y => str_cmp x y
  | IUInt _, IStr _ => Lt
  | IStr _, IUInt _ => Gt
  end.

(* compare_pre_release_identifiers *)
Fixpoint idents_cmp (l r : list ident) : comparison :=
  match l, r with
  | [], [] => Eq
  | [], _ :: _ => Lt
  | _ :: _, [] => Gt
  | x :: l', y :: r' => match ident_cmp x y with Eq => idents_cmp l' r' | c => c end
  end.

Definition then_with (c : comparison) (d : comparison) : comparison :=
  match c with Eq => d | _ => c end.

Definition semver_cmp (a b : semver) : comparison :=
  then_with (N.compare (sv_major a) (sv_major b))
  (then_with (N.compare (sv_minor a) (sv_minor b))
  (then_with (N.compare (sv_patch a) (sv_patch b))
    (match sv_pre a, sv_pre b with
     | None, None => Eq
     | None, Some _ => Gt
     | Some _, None => Lt
     | Some p, Some q => idents_cmp p q
     end))).

Definition semver_eqb (a b : semver) : bool :=
  match semver_cmp a b with Eq => true | _ => false end.

(* GitUtils::find_max_version_tag on already parsed values: Iterator::max_by keeps the LAST maximum *)
Fixpoint max_by_last {A} (cmp : A -> A -> comparison) (cur : A) (l : list A) : A :=
  match l with
  | [] => cur
  | x :: l' => max_by_last cmp (match cmp cur x with Gt => cur | _ => x end) l'
  end.

(* ---------------- `zerv check --format semver` ---------------- *)
(* Ok text = "Version: <s>\n✓ Valid SemVer format[ (normalized: <printed>)]" ; we return
   (printed, normalized?) and the harness compares the text pieces *)
Definition semver_check (s : str) : option (str * bool) :=
  match semver_parse s with
  | Some v => let p := semver_print v in Some (p, negb (str_eqb p s))
  | None => None
  end.
