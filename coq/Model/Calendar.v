(* Closed-form proleptic Gregorian calendar on Z (days since 1970-01-01), standing for
   chrono::DateTime<Utc>::from_timestamp + the date/time accessors used by strftime.  No proofs. *)
From Coq Require Export ZArith.
From ZV Require Export Str Dec.
Open Scope Z_scope.

(* civil date of a day number (days since 1970-01-01); Coq's Z division floors *)
Definition civil_from_days (z : Z) : Z * Z * Z :=
  let z := z + 719468 in
  let era := z / 146097 in
  let doe := z - era * 146097 in
  let yoe := (doe - doe / 1460 + doe / 36524 - doe / 146096) / 365 in
  let y := yoe + era * 400 in
  let doy := doe - (365 * yoe + yoe / 4 - yoe / 100) in
  let mp := (5 * doy + 2) / 153 in
  let d := doy - (153 * mp + 2) / 5 + 1 in
  let m := if mp <? 10 then mp + 3 else mp - 9 in
  (if m <=? 2 then y + 1 else y, m, d).

Definition is_leap (y : Z) : bool :=
  ((y mod 4 =? 0) && negb (y mod 100 =? 0)) || (y mod 400 =? 0).

Definition days_before_month (leap : bool) (m : Z) : Z :=
  let base :=
    if m =? 1 then 0 else if m =? 2 then 31 else if m =? 3 then 59 else if m =? 4 then 90
    else if m =? 5 then 120 else if m =? 6 then 151 else if m =? 7 then 181 else if m =? 8 then 212
    else if m =? 9 then 243 else if m =? 10 then 273 else if m =? 11 then 304 else 334 in
  if leap && (2 <? m) then base + 1 else base.

(* 0-based day of the year *)
Definition yday0 (y m d : Z) : Z := days_before_month (is_leap y) m + d - 1.

(* days from Monday: Monday = 0 ... Sunday = 6 ; 1970-01-01 was a Thursday *)
Definition wd_monday (z : Z) : Z := (z + 3) mod 7.

(* strftime %W: week of the year, weeks start on Monday, days before the first Monday are week 0 *)
Definition week_monday (yd wdm : Z) : Z := (yd + 7 - wdm) / 7.

Record dt := { dt_year : Z; dt_month : Z; dt_day : Z; dt_hour : Z; dt_min : Z; dt_sec : Z; dt_week : Z }.

Definition dt_of_secs (s : Z) : dt :=
  let days := s / 86400 in
  let sod := s mod 86400 in
  let '(y, m, d) := civil_from_days days in
  {| dt_year := y; dt_month := m; dt_day := d;
     dt_hour := sod / 3600; dt_min := (sod mod 3600) / 60; dt_sec := sod mod 60;
     dt_week := week_monday (yday0 y m d) (wd_monday days) |}.

(* chrono's representable range of years *)
Definition chrono_year_ok (y : Z) : bool := (-262143 <=? y) && (y <=? 262142).
