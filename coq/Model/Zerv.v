(* Model of the Zerv object: src/version/zerv/{core,vars,components}.rs, schema/{core,validation}.rs.
   No proofs here. *)
From ZV Require Export Str Dec Sanitize Timestamp Pep440.
Open Scope N_scope.

(* serde_json::Value; numbers are kept as the text serde_json's Display prints *)
Inductive json :=
| JNull | JBool (b : bool) | JNum (text : str) | JStr (s : str) | JArr (l : list json) | JObj (l : list (str * json)).

Record prevar := { pr_label : label; pr_num : option N }.

Record vars := {
  v_major : option N; v_minor : option N; v_patch : option N; v_epoch : option N;
  v_pre : option prevar; v_post : option N; v_dev : option N;
  v_distance : option N; v_dirty : option bool;
  v_bumped_branch : option str; v_bumped_hash : option str; v_bumped_ts : option N;
  v_last_branch : option str; v_last_hash : option str; v_last_ts : option N; v_last_tag : option str;
  v_custom : json
}.

Inductive var :=
| Major | Minor | Patch | Epoch | PreRelease | Post | Dev
| Distance | Dirty | BumpedBranch | BumpedCommitHash | BumpedCommitHashShort | BumpedTimestamp
| LastBranch | LastCommitHash | LastCommitHashShort | LastTimestamp
| Custom (name : str) | Ts (pattern : str).

Inductive component := CStr (s : str) | CUInt (n : N) | CVar (v : var).

(* precedence levels (bump/precedence.rs) *)
Inductive prec :=
| PEpoch | PMajor | PMinor | PPatch | PCore | PPreLabel | PPreNum | PPost | PDev | PExtraCore | PBuild.

Record schema := { s_core : list component; s_extra : list component; s_build : list component; s_prec : list prec }.
Record zerv := { z_schema : schema; z_vars : vars }.

Definition is_primary (v : var) : bool := match v with Major | Minor | Patch => true | _ => false end.
Definition is_secondary (v : var) : bool := match v with Epoch | PreRelease | Post | Dev => true | _ => false end.

Definition lit_of (l : list N) : str := l.
Definition label_str (l : label) : str :=
  match l with Alpha => lit_of [97;108;112;104;97] | Beta => lit_of [98;101;116;97] | Rc => lit_of [114;99] end.
Definition s_true : str := [116;114;117;101].
Definition s_false : str := [102;97;108;115;101].

(* derive_short_hash: the first eight characters *)
Definition short_hash (h : str) : str := take_n 8 h.

(* get_custom_value: dot-separated path through nested objects *)
Fixpoint assoc_str {A} (k : str) (l : list (str * A)) : option A :=
  match l with [] => None | (k', v) :: l' => if str_eqb k k' then Some v else assoc_str k l' end.

Fixpoint json_path (parts : list str) (j : json) : option json :=
  match parts with
  | [] => Some j
  | p :: ps => match j with
               | JObj l => match assoc_str p l with Some j' => json_path ps j' | None => None end
               | _ => None
               end
  end.

Definition custom_value (vs : vars) (name : str) : option str :=
  match json_path (split_on c_dot name) (v_custom vs) with
  | Some (JStr s) => Some s
  | Some (JNum t) => Some t
  | Some (JBool b) => Some (if b then s_true else s_false)
  | _ => None
  end.

Definition omap {A B} (f : A -> B) (o : option A) : option B := match o with Some x => Some (f x) | None => None end.

(* Var::resolve_value *)
Definition var_value (v : var) (vs : vars) (z : sanitizer) : option str :=
  let num (o : option N) := omap (fun n => sanitize z (print_dec n)) o in
  let txt (o : option str) := omap (sanitize z) o in
  match v with
  | Major => num (v_major vs) | Minor => num (v_minor vs) | Patch => num (v_patch vs) | Epoch => num (v_epoch vs)
  | Post => num (v_post vs) | Dev => num (v_dev vs)
  | PreRelease => match v_pre vs with Some p => num (pr_num p) | None => None end
  | BumpedBranch => txt (v_bumped_branch vs)
  | Distance => num (v_distance vs)
  | BumpedCommitHashShort => txt (omap short_hash (v_bumped_hash vs))
  | BumpedCommitHash => txt (v_bumped_hash vs)
  | BumpedTimestamp => num (v_bumped_ts vs)
  | LastBranch => txt (v_last_branch vs)
  | LastCommitHash => txt (v_last_hash vs)
  | LastCommitHashShort => txt (omap short_hash (v_last_hash vs))
  | LastTimestamp => num (v_last_ts vs)
  | Dirty => omap (fun b : bool => sanitize z (if b then s_true else s_false)) (v_dirty vs)
  | Custom name => txt (custom_value vs name)
  | Ts p => match (match v_bumped_ts vs with Some t => Some t | None => v_last_ts vs end) with
            | Some t => txt (resolve_timestamp p t)
            | None => None
            end
  end.

Definition L (l : list N) : str := l.
Definition key_of (v : var) : str :=
  match v with
  | Major => L [109;97;106;111;114] | Minor => L [109;105;110;111;114] | Patch => L [112;97;116;99;104]
  | Epoch => L [101;112;111;99;104] | Post => L [112;111;115;116] | Dev => L [100;101;118]
  | BumpedBranch => L [98;114;97;110;99;104] | Distance => L [100;105;115;116;97;110;99;101]
  | BumpedCommitHashShort => L [99;111;109;109;105;116]
  | BumpedCommitHash => L [99;111;109;109;105;116;95;104;97;115;104]
  | BumpedTimestamp => L [116;105;109;101;115;116;97;109;112]
  | LastBranch => L [108;97;115;116;95;98;114;97;110;99;104]
  | LastCommitHash => L [108;97;115;116;95;99;111;109;109;105;116]
  | LastCommitHashShort => L [108;97;115;116;95;99;111;109;109;105;116;95;115;104;111;114;116]
  | LastTimestamp => L [108;97;115;116;95;116;105;109;101;115;116;97;109;112]
  | Dirty => L [100;105;114;116;121]
  | PreRelease | Custom _ | Ts _ => []
  end.

(* Var::resolve_expanded_values (key sanitiser = Sanitizer::key()) *)
Definition var_expanded (v : var) (vs : vars) (z : sanitizer) : list str :=
  let with_value (parts : list str) :=
    match var_value v vs z with Some x => parts ++ [x] | None => [] end in
  match v with
  | PreRelease =>
    match v_pre vs with
    | Some p => sanitize key_sanitizer (label_str (pr_label p))
                :: match var_value v vs z with Some x => [x] | None => [] end
    | None => []
    end
  | Custom name =>
    match custom_value vs name with
    | Some _ => with_value (map (sanitize key_sanitizer) (split_on c_dot name))
    | None => []
    end
  | Ts _ => match var_value v vs z with Some x => [x] | None => [] end
  | _ => with_value [sanitize key_sanitizer (key_of v)]
  end.

(* Component::resolve_value / resolve_expanded_values *)
Definition comp_value (c : component) (vs : vars) (z : sanitizer) : option str :=
  match c with
  | CStr s => Some (sanitize z s)
  | CUInt n => Some (sanitize z (print_dec n))
  | CVar v => var_value v vs z
  end.

Definition comp_expanded (c : component) (vs : vars) (z : sanitizer) : list str :=
  match c with
  | CVar v => var_expanded v vs z
  | _ => match comp_value c vs z with Some x => [x] | None => [] end
  end.

(* ---------------- schema/validation.rs ---------------- *)
Definition var_eqb (a b : var) : bool :=
  match a, b with
  | Major, Major | Minor, Minor | Patch, Patch | Epoch, Epoch | PreRelease, PreRelease | Post, Post | Dev, Dev
  | Distance, Distance | Dirty, Dirty | BumpedBranch, BumpedBranch | BumpedCommitHash, BumpedCommitHash
  | BumpedCommitHashShort, BumpedCommitHashShort | BumpedTimestamp, BumpedTimestamp | LastBranch, LastBranch
  | LastCommitHash, LastCommitHash | LastCommitHashShort, LastCommitHashShort | LastTimestamp, LastTimestamp => true
  | Custom x, Custom y => str_eqb x y
  | Ts x, Ts y => str_eqb x y
  | _, _ => false
  end.

Definition component_ok (c : component) : bool :=
  match c with CVar (Ts p) => is_valid_timestamp_pattern p | _ => true end.

Definition primary_index (v : var) : N := match v with Major => 0 | Minor => 1 | _ => 2 end.

(* core: no secondary, primaries at most once, in the order major -> minor -> patch *)
Fixpoint core_ok (l : list component) (seen : list var) : bool :=
  match l with
  | [] => true
  | CVar v :: l' =>
    if is_primary v then
      if existsb (var_eqb v) seen then false
      else if existsb (fun s => primary_index v <=? primary_index s) seen then false
      else core_ok l' (v :: seen)
    else if is_secondary v then false
    else core_ok l' seen
  | _ :: l' => core_ok l' seen
  end.

Fixpoint extra_ok (l : list component) (seen : list var) : bool :=
  match l with
  | [] => true
  | CVar v :: l' =>
    if is_secondary v then (if existsb (var_eqb v) seen then false else extra_ok l' (v :: seen))
    else if is_primary v then false
    else extra_ok l' seen
  | _ :: l' => extra_ok l' seen
  end.

Definition build_ok (l : list component) : bool :=
  forallb (fun c => match c with CVar v => negb (is_primary v) && negb (is_secondary v) | _ => true end) l.

Definition schema_validate (s : schema) : bool :=
  negb (match s_core s, s_extra s, s_build s with [], [], [] => true | _, _, _ => false end)
  && forallb component_ok (s_core s) && core_ok (s_core s) []
  && forallb component_ok (s_extra s) && extra_ok (s_extra s) []
  && forallb component_ok (s_build s) && build_ok (s_build s).

Definition default_prec : list prec :=
  [PEpoch; PMajor; PMinor; PPatch; PCore; PPreLabel; PPreNum; PPost; PDev; PExtraCore; PBuild].
