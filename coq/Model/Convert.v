(* Model of src/version/semver/to_zerv.rs (PreReleaseProcessor), src/version/pep440/to_zerv.rs and
   src/cli/render/pipeline.rs.  No proofs here. *)
From ZV Require Export Zerv Render.
Open Scope N_scope.

(* ---------------- SemVer -> Zerv ---------------- *)
Definition s_epoch : str := [101;112;111;99;104].
Definition s_post : str := [112;111;115;116].
Definition s_dev : str := [100;101;118].

(* PreReleaseLabel::try_from_str: lower-cased; alpha|a, beta|b, rc|c|preview|pre *)
Definition label_try (s : str) : option label :=
  let l := map ascii_lower s in
  if str_eqb l L_alpha || str_eqb l L_a then Some Alpha
  else if str_eqb l L_beta || str_eqb l L_b then Some Beta
  else if str_eqb l L_rc || str_eqb l L_c || str_eqb l L_preview || str_eqb l L_pre then Some Rc
  else None.

(* Var::try_from_secondary_label *)
Definition secondary_of_label (s : str) : option var :=
  if str_eqb s s_epoch then Some Epoch else if str_eqb s s_post then Some Post else if str_eqb s s_dev then Some Dev
  else match label_try s with Some _ => Some PreRelease | None => None end.

Record pstate := {
  ps_epoch : option N; ps_post : option N; ps_dev : option N; ps_pre : option prevar;
  ps_extra : list component;          (* schema.extra_core so far *)
  ps_pending : option var;
  ps_failed : bool                    (* a push_extra_core returned Err (the expect() would panic) *)
}.

Definition upd_extra (st : pstate) (c : component) : pstate :=
  let e := ps_extra st ++ [c] in
  {| ps_epoch := ps_epoch st; ps_post := ps_post st; ps_dev := ps_dev st; ps_pre := ps_pre st;
     ps_extra := e; ps_pending := ps_pending st;
     ps_failed := ps_failed st || negb (forallb component_ok e && extra_ok e []) |}.

Definition set_pending (st : pstate) (p : option var) : pstate :=
  {| ps_epoch := ps_epoch st; ps_post := ps_post st; ps_dev := ps_dev st; ps_pre := ps_pre st;
     ps_extra := ps_extra st; ps_pending := p; ps_failed := ps_failed st |}.

Definition in_extra (st : pstate) (v : var) : bool :=
  existsb (fun c => match c with CVar w => var_eqb v w | _ => false end) (ps_extra st).

Definition is_var_set (st : pstate) (v : var) : bool :=
  in_extra st v ||
  match v with
  | PreRelease => is_some (ps_pre st) | Epoch => is_some (ps_epoch st) | Post => is_some (ps_post st) | Dev => is_some (ps_dev st)
  | _ => false
  end.

(* finalize_var: set the value, push Var(var) *)
Definition finalize_var (st : pstate) (v : var) (value : option N) : pstate :=
  let st1 :=
    match v with
    | Epoch => {| ps_epoch := value; ps_post := ps_post st; ps_dev := ps_dev st; ps_pre := ps_pre st; ps_extra := ps_extra st; ps_pending := ps_pending st; ps_failed := ps_failed st |}
    | Post => {| ps_epoch := ps_epoch st; ps_post := value; ps_dev := ps_dev st; ps_pre := ps_pre st; ps_extra := ps_extra st; ps_pending := ps_pending st; ps_failed := ps_failed st |}
    | Dev => {| ps_epoch := ps_epoch st; ps_post := ps_post st; ps_dev := value; ps_pre := ps_pre st; ps_extra := ps_extra st; ps_pending := ps_pending st; ps_failed := ps_failed st |}
    | PreRelease => {| ps_epoch := ps_epoch st; ps_post := ps_post st; ps_dev := ps_dev st;
                       ps_pre := match ps_pre st with Some p => Some {| pr_label := pr_label p; pr_num := value |} | None => None end;
                       ps_extra := ps_extra st; ps_pending := ps_pending st; ps_failed := ps_failed st |}
    | _ => st
    end in
  upd_extra st1 (CVar v).

Definition var_is (o : option var) (v : var) : bool := match o with Some w => var_eqb w v | None => false end.

Definition finalize_pending (st : pstate) : pstate :=
  match ps_pending st with
  | Some p => finalize_var (set_pending st None) p None
  | None => st
  end.

(* process_string_identifier *)
Definition step_str (st : pstate) (s : str) : pstate :=
  if var_is (ps_pending st) PreRelease then
    upd_extra (set_pending (finalize_var st PreRelease None) None) (CStr s)
  else
    let lab := secondary_of_label s in
    let dup :=            (* handle_duplicate *)
      match lab with
      | Some v =>
        if var_is (ps_pending st) v then Some (upd_extra (finalize_var (set_pending st None) v None) (CStr s))
        else if is_var_set st v then Some (upd_extra (finalize_pending st) (CStr s))
        else None
      | None => None
      end in
    match dup with
    | Some st' => st'
    | None =>
      let st1 := finalize_pending st in
      match lab with
      | Some PreRelease =>
        match label_try s with
        | Some l => set_pending {| ps_epoch := ps_epoch st1; ps_post := ps_post st1; ps_dev := ps_dev st1;
                                   ps_pre := Some {| pr_label := l; pr_num := None |}; ps_extra := ps_extra st1;
                                   ps_pending := ps_pending st1; ps_failed := ps_failed st1 |} (Some PreRelease)
        | None => upd_extra st1 (CStr s)
        end
      | Some v => set_pending st1 (Some v)
      | None => upd_extra st1 (CStr s)
      end
    end.

(* process_uint_identifier *)
Definition step_uint (st : pstate) (n : N) : pstate :=
  match ps_pending st with
  | Some v => finalize_var (set_pending st None) v (Some n)
  | None => upd_extra st (CUInt n)
  end.

Definition step_ident (st : pstate) (i : ident) : pstate :=
  match i with IStr s => step_str st s | IUInt n => step_uint st n end.

Definition comp_of_ident (i : ident) : component := match i with IStr s => CStr s | IUInt n => CUInt n end.

Definition empty_vars : vars :=
  {| v_major := None; v_minor := None; v_patch := None; v_epoch := None; v_pre := None; v_post := None; v_dev := None;
     v_distance := None; v_dirty := None; v_bumped_branch := None; v_bumped_hash := None; v_bumped_ts := None;
     v_last_branch := None; v_last_hash := None; v_last_ts := None; v_last_tag := None; v_custom := JNull |}.

(* SemVer::to_zerv_with_schema(semver_default) ; None = Err (and the expect() in From<SemVer> panics) *)
Definition zerv_of_semver (v : semver) : option zerv :=
  let st0 := {| ps_epoch := None; ps_post := None; ps_dev := None; ps_pre := None; ps_extra := []; ps_pending := None; ps_failed := false |} in
  let st1 := match sv_pre v with Some ids => fold_left step_ident ids st0 | None => st0 end in
  let st2 := match ps_pending st1 with Some p => upd_extra (set_pending st1 None) (CVar p) | None => st1 end in
  if ps_failed st2 then None
  else Some {| z_schema := {| s_core := standard_core; s_extra := ps_extra st2;
                              s_build := match sv_build v with Some b => map comp_of_ident b | None => [] end;
                              s_prec := default_prec |};
               z_vars := {| v_major := Some (sv_major v); v_minor := Some (sv_minor v); v_patch := Some (sv_patch v);
                            v_epoch := ps_epoch st2; v_pre := ps_pre st2; v_post := ps_post st2; v_dev := ps_dev st2;
                            v_distance := None; v_dirty := None; v_bumped_branch := None; v_bumped_hash := None; v_bumped_ts := None;
                            v_last_branch := None; v_last_hash := None; v_last_ts := None; v_last_tag := None; v_custom := JNull |} |}.

(* ---------------- PEP 440 -> Zerv ---------------- *)
Definition comp_of_lseg (g : lseg) : component := match g with LStr s => CStr s | LUInt n => CUInt n end.

Definition zerv_of_pep (p : pep) : zerv :=
  {| z_schema := {| s_core := standard_core ++ map CUInt (skipn 3 (p_release p));
                    s_extra := prerelease_post_dev_extra;
                    s_build := match p_local p with Some l => map comp_of_lseg l | None => [] end;
                    s_prec := default_prec |};
     z_vars := {| v_major := nth_error (p_release p) 0; v_minor := nth_error (p_release p) 1; v_patch := nth_error (p_release p) 2;
                  v_epoch := if 0 <? p_epoch p then Some (p_epoch p) else None;
                  v_pre := match p_pre_label p with Some l => Some {| pr_label := l; pr_num := p_pre_num p |} | None => None end;
                  v_post := p_post_num p; v_dev := p_dev_num p;
                  v_distance := None; v_dirty := None; v_bumped_branch := None; v_bumped_hash := None; v_bumped_ts := None;
                  v_last_branch := None; v_last_hash := None; v_last_ts := None; v_last_tag := None; v_custom := JNull |} |}.

(* ---------------- zerv render <version> -f <in> --output-format <out> ---------------- *)
Inductive fmt := FSemver | FPep440 | FAuto.
Inductive outcome (A : Type) := OOk (a : A) | OErr | OPanic.
Arguments OOk {A} a. Arguments OErr {A}. Arguments OPanic {A}.

(* VersionObject::parse_with_format: auto tries SemVer first, then PEP 440 *)
Definition parse_version (f : fmt) (s : str) : outcome zerv :=
  let from_semver v := match zerv_of_semver v with Some z => OOk z | None => OPanic end in
  match f with
  | FSemver => match semver_parse s with Some v => from_semver v | None => OErr end
  | FPep440 => match pep_parse s with Some p => OOk (zerv_of_pep p) | None => OErr end
  | FAuto => match semver_parse s with
             | Some v => from_semver v
             | None => match pep_parse s with Some p => OOk (zerv_of_pep p) | None => OErr end
             end
  end.

Definition format_zerv (out : fmt) (z : zerv) : outcome str :=
  match out with
  | FSemver => OOk (semver_print (semver_of_zerv z))
  | FPep440 => match pep_of_zerv z with Some p => OOk (pep_print p) | None => OPanic end
  | FAuto => OErr
  end.

Definition render_cmd (inf outf : fmt) (prefix : str) (s : str) : outcome str :=
  match parse_version inf s with
  | OOk z => match format_zerv outf z with OOk t => OOk (prefix ++ t) | OErr => OErr | OPanic => OPanic end
  | OErr => OErr
  | OPanic => OPanic
  end.
