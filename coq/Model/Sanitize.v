(* Model of src/utils/sanitize.rs (Sanitizer), function for function.
   No proofs in this file. *)
From ZV Require Export Str.

Record sanitizer := {
  sz_uint : bool;              (* target: true = UInt, false = Str *)
  sz_sep : option str;         (* separator *)
  sz_lower : bool;
  sz_keep_zeros : bool;
  sz_max : option nat          (* max_length, characters *)
}.

Definition semver_str : sanitizer :=
  {| sz_uint := false; sz_sep := Some [c_dot]; sz_lower := false; sz_keep_zeros := false; sz_max := None |}.
Definition pep440_local_str : sanitizer :=
  {| sz_uint := false; sz_sep := Some [c_dot]; sz_lower := true; sz_keep_zeros := false; sz_max := None |}.
Definition key_sanitizer : sanitizer := pep440_local_str.
Definition uint_sanitizer : sanitizer :=
  {| sz_uint := true; sz_sep := None; sz_lower := false; sz_keep_zeros := false; sz_max := None |}.
Definition custom_str (sep : option str) (lower keep : bool) (mx : option nat) : sanitizer :=
  {| sz_uint := false; sz_sep := sep; sz_lower := lower; sz_keep_zeros := keep; sz_max := mx |}.

(* remove_leading_zeros_from_segment *)
Definition strip_zeros_segment (seg : str) : str :=
  match seg with
  | [] => []
  | _ => if all_b is_ascii_digit seg
         then match drop_while (N.eqb c_0) seg with [] => [c_0] | t => t end
         else seg
  end.

(* replace_non_alphanumeric: the loop with its (result, last_was_sep) state;
   the accumulator is kept reversed *)
Fixpoint replace_loop (sep : str) (s : str) (acc : str) (last_sep : bool) : str :=
  match s with
  | [] => rev acc
  | ch :: s' =>
      if is_ascii_alnum ch then replace_loop sep s' (ch :: acc) false
      else if negb last_sep then replace_loop sep s' (rev sep ++ acc) true
      else replace_loop sep s' acc last_sep
  end.

Definition replace_non_alnum (sep : option str) (s : str) : str :=
  match sep with
  | None => s
  | Some sp => trim_end_str sp (replace_loop sp s [] false)
  end.

Definition remove_leading_zeros (sep : option str) (s : str) : str :=
  match sep with
  | None => strip_zeros_segment s
  | Some sp =>
      match s with
      | [] => []
      | _ => intercalate sp (map strip_zeros_segment (split_str sp s))
      end
  end.

Definition sanitize_to_string (z : sanitizer) (input : str) : str :=
  let r := if sz_lower z then map ascii_lower input else input in
  let r := replace_non_alnum (sz_sep z) r in
  let r := if sz_keep_zeros z then r else remove_leading_zeros (sz_sep z) r in
  let r := match sz_max z with Some m => take_n m r | None => r end in
  let r := match sz_sep z with
           | Some sp => trim_end_str sp (trim_start_str sp r)
           | None => r end in
  let r := if negb (sz_keep_zeros z) && (match sz_max z with Some _ => true | None => false end)
           then remove_leading_zeros (sz_sep z) r else r in
  r.

Definition sanitize_to_integer (z : sanitizer) (input : str) : str :=
  let t := trim_ws input in
  if all_b is_ascii_digit t && negb (match t with [] => true | _ => false end) then
    if sz_keep_zeros z then t
    else match drop_while (N.eqb c_0) t with [] => [c_0] | w => w end
  else [].

Definition sanitize (z : sanitizer) (input : str) : str :=
  if sz_uint z then sanitize_to_integer z input else sanitize_to_string z input.
