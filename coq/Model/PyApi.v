(* Model of python/zerv/__init__.py: _extend_args and the way version / flow / check / render build the command line from their
   keyword arguments, over the (flag, keyword) tables regenerated from the source (Gen/PyApi.v).  No proofs here. *)
From Coq Require Import ZArith.
From ZV Require Export Str Dec.
Open Scope N_scope.

Inductive pyval := PNone | PBool (b : bool) | PInt (z : Z) | PStr (s : str).

(* str(value) *)
Definition py_str (v : pyval) : str :=
  match v with
  | PInt z => if (z <? 0)%Z then 45 :: print_dec (Z.to_N (- z)) else print_dec (Z.to_N z)
  | PStr s => s
  | PBool true => [84;114;117;101] | PBool false => [70;97;108;115;101]
  | PNone => [78;111;110;101]
  end.

(* _extend_args *)
Fixpoint extend_args (args : list str) (flags : list (str * pyval)) : list str :=
  match flags with
  | [] => args
  | (f, v) :: rest =>
    match v with
    | PNone | PBool false => extend_args args rest
    | PBool true => extend_args (args ++ [f]) rest
    | _ => extend_args (args ++ [f; py_str v]) rest
    end
  end.

Fixpoint kw_lookup (k : str) (kwargs : list (str * pyval)) : pyval :=
  match kwargs with [] => PNone | (k', v) :: rest => if str_eqb k k' then v else kw_lookup k rest end.

(* the argv a call produces: the fixed leading arguments (constants, or positional parameters by name), then the table in order *)
Definition py_argv (base : list (bool * str)) (table : list (str * str)) (positional kwargs : list (str * pyval)) : list str :=
  extend_args (map (fun b : bool * str => if fst b then py_str (kw_lookup (snd b) positional) else snd b) base)
              (map (fun fk : str * str => (fst fk, kw_lookup (snd fk) kwargs)) table).

(* ---- parity with the clap definitions ---- *)
Definition dashed (k : str) : str := map (fun c => if c =? 95 then 45 else c) k.
Definition strs_mem (x : str) (l : list str) : bool := existsb (str_eqb x) l.

(* keyword -> long option name where it is not simply the dashed keyword *)
Definition aliases : list (str * str) := [([114;101;112;111;95;112;97;116;104], [100;105;114;101;99;116;111;114;121])].   (* repo_path -> directory *)
Definition long_of_kw (k : str) : str :=
  match find (fun a => str_eqb (fst a) k) aliases with Some a => snd a | None => dashed k end.

(* the clap entry a Python flag spelling denotes: "--long" or "-s" *)
Definition denotes (flag : str) (e : str * option str * N) : bool :=
  let '(long, short, _) := e in
  str_eqb flag ([45;45] ++ long) || match short with Some s => str_eqb flag (45 :: s) | None => false end.

Definition entry_ok (keywords : list (str * bool)) (clap : list (str * option str * N)) (fk : str * str) : bool :=
  let '(flag, kw) := fk in
  match find (fun kb => str_eqb (fst kb) kw) keywords, find (denotes flag) clap with
  | Some (_, is_bool), Some (long, _, arity) =>
    str_eqb long (long_of_kw kw)                                   (* the option is the one named like the keyword *)
    && (if is_bool then arity =? 0 else negb (arity =? 0))          (* flags without value <-> bool keywords *)
  | _, _ => false
  end.

Fixpoint nodup_b (l : list str) : bool := match l with [] => true | x :: l' => negb (strs_mem x l') && nodup_b l' end.

Definition s_stdin : str := [115;116;100;105;110].

Definition parity_ok (keywords : list (str * bool)) (table : list (str * str)) (clap : list (str * option str * N)) (passes_stdin : bool) : bool :=
  forallb (entry_ok keywords clap) table
  && nodup_b (map fst table) && nodup_b (map snd table)
  (* every keyword is used: in the table, or it is stdin handed to the process *)
  && forallb (fun kb => strs_mem (fst kb) (map snd table) || (passes_stdin && str_eqb (fst kb) s_stdin)) keywords.
