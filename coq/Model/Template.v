(* Model of the template context (src/cli/utils/template/context.rs), the part accessors of SemVer / PEP440 (core.rs), the
   custom Tera functions (functions.rs) and the final trimming of Template::render (types.rs).  The Tera engine itself is not
   modelled: a template is taken as a sequence of atoms (one `{{ expression }}` or literal text each), see DESIGN.md.  No proofs. *)
From ZV Require Export Zerv Render Convert Hash SemVer Pep440 Timestamp.
Open Scope N_scope.

(* ---------------- part accessors ---------------- *)
Definition sv_base_part (v : semver) : str := release_print (sv_major v) (sv_minor v) (sv_patch v).
Definition sv_pre_part (v : semver) : option str := omap idents_print (sv_pre v).
Definition sv_build_part (v : semver) : option str := omap idents_print (sv_build v).

Definition pep_base_part (p : pep) : str := epoch_release_print (p_epoch p) (p_release p).
Definition pep_pre_part (p : pep) : option str := match pre_section_print p with [] => None | s => Some s end.
Definition pep_build_part (p : pep) : option str := omap local_print (p_local p).

(* ---------------- custom functions ---------------- *)
Definition fn_hash (value : str) (length : nat) : str := hash_hex value length.
Definition fn_hash_int (value : str) (length : nat) (allow_leading_zero : bool) : str := hash_int value length allow_leading_zero.
Definition fn_prefix (value : str) (length : nat) : str := take_n length value.
Definition fn_prefix_if (value prefix : str) : str := match value with [] => [] | _ => prefix ++ value end.

Definition s_semver_str : str := [115;101;109;118;101;114;95;115;116;114].
Definition s_semver : str := [115;101;109;118;101;114].
Definition s_dotted : str := [100;111;116;116;101;100].
Definition s_pep440_local_str : str := [112;101;112;52;52;48;95;108;111;99;97;108;95;115;116;114].
Definition s_pep440 : str := [112;101;112;52;52;48].
Definition s_lower_dotted : str := [108;111;119;101;114;95;100;111;116;116;101;100].
Definition s_uint : str := [117;105;110;116].

(* sanitize(value, preset=..) : None = unknown preset (template error) *)
Definition fn_sanitize_preset (value preset : str) : option str :=
  if str_eqb preset s_semver_str || str_eqb preset s_semver || str_eqb preset s_dotted then Some (sanitize semver_str value)
  else if str_eqb preset s_pep440_local_str || str_eqb preset s_pep440 || str_eqb preset s_lower_dotted then Some (sanitize pep440_local_str value)
  else if str_eqb preset s_uint then Some (sanitize uint_sanitizer value)
  else None.

(* sanitize(value, separator=, lowercase=, keep_zeros=, max_length=) with at least one of them given; no parameter at all = dotted *)
Definition fn_sanitize_custom (value : str) (sep : option str) (lower keep : option bool) (maxlen : option nat) : str :=
  match sep, lower, keep, maxlen with
  | None, None, None, None => sanitize semver_str value
  | _, _, _, _ => sanitize (custom_str sep (match lower with Some b => b | None => false end) (match keep with Some b => b | None => false end) maxlen) value
  end.

(* format_timestamp(value, format): the strftime items the model knows; None = template error or an item outside the model *)
Definition pad3 (z : Z) : str := pad_to 3 (zdec z).
Fixpoint strftime (d : dt) (f : str) : option str :=
  match f with
  | [] => Some []
  | 37 :: c :: f' =>
    let item :=
      if c =? 89 then Some (fmt_Y (dt_year d))            (* %Y *)
      else if c =? 121 then Some (fmt_y (dt_year d))      (* %y *)
      else if c =? 109 then Some (pad2 (dt_month d))      (* %m *)
      else if c =? 100 then Some (pad2 (dt_day d))        (* %d *)
      else if c =? 72 then Some (pad2 (dt_hour d))        (* %H *)
      else if c =? 77 then Some (pad2 (dt_min d))         (* %M *)
      else if c =? 83 then Some (pad2 (dt_sec d))         (* %S *)
      else if c =? 106 then Some (pad3 (yday0 (dt_year d) (dt_month d) (dt_day d) + 1))   (* %j *)
      else if c =? 87 then Some (pad2 (dt_week d))        (* %W *)
      else if c =? 37 then Some [37]                      (* %% *)
      else None in
    match item, strftime d f' with Some a, Some b => Some (a ++ b) | _, _ => None end
  | 37 :: [] => None
  | c :: f' => match strftime d f' with Some b => Some (c :: b) | None => None end
  end.

Definition s_pct_compact_date : str := [37;89;37;109;37;100].
Definition s_pct_compact_datetime : str := [37;89;37;109;37;100;37;72;37;77;37;83].
Definition s_default_format : str := [37;89;45;37;109;45;37;100].

Definition fn_format_timestamp (value : N) (format : option str) : option str :=
  let f := match format with Some f => f | None => s_default_format end in
  let f' := if str_eqb f s_compact_date then s_pct_compact_date else if str_eqb f s_compact_datetime then s_pct_compact_datetime else f in
  let d := dt_of_secs (u64_as_i64 value) in
  if negb (chrono_year_ok (dt_year d)) then None else strftime d f'.

(* ---------------- the context ---------------- *)
Record tctx := {
  t_semver : str; t_pep440 : str;
  t_sv_base : str; t_sv_pre : option str; t_sv_build : option str; t_sv_docker : str;
  t_pep_base : str; t_pep_pre : option str; t_pep_build : option str
}.

(* None = the PEP 440 conversion panics (proved impossible) *)
Definition ctx_of_zerv (z : zerv) : option tctx :=
  let v := semver_of_zerv z in
  match pep_of_zerv z with
  | Some p =>
    Some {| t_semver := semver_print v; t_pep440 := pep_print p;
            t_sv_base := sv_base_part v; t_sv_pre := sv_pre_part v; t_sv_build := sv_build_part v; t_sv_docker := semver_docker v;
            t_pep_base := pep_base_part p; t_pep_pre := pep_pre_part p; t_pep_build := pep_build_part p |}
  | None => None
  end.

(* label_str and the PEP 440 short label of pre_release.label / label_code / label_pep440 *)
Definition pre_label_long (z : zerv) : option str := omap (fun p => label_str (pr_label p)) (v_pre (z_vars z)).
Definition pre_label_code (z : zerv) : option str := omap (fun p => label_print (pr_label p)) (v_pre (z_vars z)).

(* ---------------- Template::render: trim, and the none/null/nil convention ---------------- *)
Definition s_none : str := [110;111;110;101].
Definition s_null : str := [110;117;108;108].
Definition s_nil : str := [110;105;108].
Definition template_finish (rendered : str) : str :=
  let t := trim_ws rendered in
  let l := map ascii_lower t in
  if str_eqb l s_none || str_eqb l s_null || str_eqb l s_nil then [] else t.
