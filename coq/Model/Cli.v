(* Model of `zerv version` for sources none / stdin:
   cli/version/{pipeline,zerv_draft,args/*}.rs, version/zerv/vars.rs (apply_context_overrides),
   cli/utils/template/types.rs (Template::render on literal text).  No proofs here. *)
From ZV Require Export Bump Ron.
Open Scope N_scope.

Inductive source := SrcNone | SrcStdin | SrcGit.
Inductive outfmt := OutSemver | OutPep440 | OutZerv.

(* raw arguments as clap delivers them; numeric options are still text (Template<u32>) *)
Record vargs := {
  g_source : option source;
  g_input_format : fmt;
  g_output_format : outfmt;
  g_prefix : option str;
  g_schema : option str;
  g_schema_ron : option (option schema);      (* Some None: the RON text does not deserialize *)
  (* overrides *)
  o_tag_version : option str;
  o_distance : option N;
  o_dirty : bool; o_no_dirty : bool; o_clean : bool;
  o_branch : option str; o_hash : option str; o_ts : option Z;
  o_major : option str; o_minor : option str; o_patch : option str; o_epoch : option str; o_post : option str;
  o_dev : option str; o_pre_label : option str; o_pre_num : option str;
  o_custom : option (option json);            (* Some None: invalid JSON *)
  o_core : list str; o_extra : list str; o_build : list str;
  (* bumps: None = flag absent, Some None = flag without value *)
  b_major : option (option str); b_minor : option (option str); b_patch : option (option str); b_post : option (option str);
  b_dev : option (option str); b_pre_num : option (option str); b_epoch : option (option str);
  b_pre_label : option str;
  b_core : list str; b_extra : list str; b_build : list str;
  b_context : bool; b_no_context : bool
}.

(* ---- args/validation.rs ---- *)
Definition is_valid_index (s : str) : bool :=
  match s with
  | [] => false
  | c :: t => if (c =? 45) || (c =? 126) then negb (match t with [] => true | _ => false end) && all_b is_ascii_digit t
              else all_b is_ascii_digit s
  end.

Definition count_eq (s : str) : nat := length (filter (N.eqb c_eq) s).

Definition is_valid_bump_spec (s : str) : bool :=
  match s with
  | [] => false
  | _ =>
    if existsb (N.eqb c_eq) s then
      if Nat.eqb (count_eq s) 1 then
        match split_first c_eq s with
        | (i, Some v) => is_valid_index i && negb (match v with [] => true | _ => false end)
        | _ => false
        end
      else false
    else is_valid_index s
  end.

Definition validate_args (a : vargs) : bool :=
  negb (o_dirty a && o_no_dirty a)
  && negb (o_clean a && (is_some (o_distance a) || o_dirty a || o_no_dirty a))
  && negb (b_context a && b_no_context a)
  && forallb is_valid_bump_spec (b_core a) && forallb is_valid_bump_spec (b_extra a) && forallb is_valid_bump_spec (b_build a)
  && negb (b_no_context a && o_dirty a)
  && negb (is_some (o_pre_label a) && is_some (b_pre_label a)).

(* ---- Template<T>::render on text without template syntax ---- *)
Definition s_none : str := [110;111;110;101].  Definition s_null : str := [110;117;108;108].  Definition s_nil : str := [110;105;108].
Definition is_none_kw (s : str) : bool :=
  let l := map ascii_lower s in
  (match l with [] => true | _ => false end) || str_eqb l s_none || str_eqb l s_null || str_eqb l s_nil.

(* Template<u32>: Some None = resolved to nothing; None = TemplateError *)
Definition render_u32 (t : str) : option (option N) :=
  let r := trim_ws t in
  if is_none_kw r then Some None
  else match parse_u32 r with Some n => Some (Some n) | None => None end.

Definition render_str (t : str) : str :=
  let r := trim_ws t in if is_none_kw r then [] else r.

Definition render_opt_u32 (o : option str) : option (option N) :=
  match o with None => Some None | Some t => render_u32 t end.

(* bumps: Some(None) was replaced by the default "1" during validation; then .flatten() *)
Definition render_bump (o : option (option str)) : option (option N) :=
  match o with
  | None => Some None
  | Some None => Some (Some 1)
  | Some (Some t) => render_u32 t
  end.

(* resolve_pre_release_label: must be exactly alpha | beta | rc, or a none keyword *)
Definition render_label (o : option str) : option (option str) :=
  match o with
  | None => Some None
  | Some t => let r := trim_ws t in
              if is_none_kw r then Some None
              else if str_eqb r L_alpha || str_eqb r L_beta || str_eqb r L_rc then Some (Some r) else None
  end.

Definition resolve_args (a : vargs) : option bargs :=
  match render_opt_u32 (o_major a), render_opt_u32 (o_minor a), render_opt_u32 (o_patch a), render_opt_u32 (o_epoch a),
        render_opt_u32 (o_post a), render_opt_u32 (o_dev a), render_label (o_pre_label a), render_opt_u32 (o_pre_num a) with
  | Some ma, Some mi, Some pa, Some ep, Some po, Some de, Some pl, Some pn =>
    match render_bump (b_major a), render_bump (b_minor a), render_bump (b_patch a), render_bump (b_post a),
          render_bump (b_dev a), render_bump (b_pre_num a), render_bump (b_epoch a), render_label (b_pre_label a) with
    | Some bma, Some bmi, Some bpa, Some bpo, Some bde, Some bpn, Some bep, Some bpl =>
      Some {| ro_major := ma; ro_minor := mi; ro_patch := pa; ro_epoch := ep; ro_post := po; ro_dev := de; ro_pre_num := pn;
              ro_pre_label := pl;
              ro_core := map render_str (o_core a); ro_extra := map render_str (o_extra a); ro_build := map render_str (o_build a);
              rb_major := bma; rb_minor := bmi; rb_patch := bpa; rb_epoch := bep; rb_post := bpo; rb_dev := bde; rb_pre_num := bpn;
              rb_pre_label := bpl;
              rb_core := map render_str (b_core a); rb_extra := map render_str (b_extra a); rb_build := map render_str (b_build a) |}
    | _, _, _, _, _, _, _, _ => None
    end
  | _, _, _, _, _, _, _, _ => None
  end.

(* ---- vars.rs: apply_context_overrides ---- *)
Definition set_ctx (vs : vars) (dist : option N) (dirty : option bool) (br hs : option str) (ts : option N) : vars :=
  {| v_major := v_major vs; v_minor := v_minor vs; v_patch := v_patch vs; v_epoch := v_epoch vs; v_pre := v_pre vs; v_post := v_post vs; v_dev := v_dev vs;
     v_distance := dist; v_dirty := dirty; v_bumped_branch := br; v_bumped_hash := hs; v_bumped_ts := ts;
     v_last_branch := v_last_branch vs; v_last_hash := v_last_hash vs; v_last_ts := v_last_ts vs; v_last_tag := v_last_tag vs; v_custom := v_custom vs |}.

Definition i64_as_u64 (z : Z) : N := Z.to_N (z mod 18446744073709551616)%Z.

Definition dirty_override (a : vargs) : option bool :=
  if o_dirty a then Some true else if o_no_dirty a then Some false else None.

Definition orelse {A} (o d : option A) : option A := match o with Some x => Some x | None => d end.

Definition apply_context_overrides (a : vargs) (vs : vars) : outcome vars :=
  (* VCS overrides *)
  let vs1 := set_ctx vs (orelse (o_distance a) (v_distance vs)) (orelse (dirty_override a) (v_dirty vs))
                     (orelse (o_branch a) (v_bumped_branch vs)) (orelse (o_hash a) (v_bumped_hash vs))
                     (orelse (omap i64_as_u64 (o_ts a)) (v_bumped_ts vs)) in
  (* --clean *)
  let vs2 := if o_clean a then set_ctx vs1 None (Some false) (v_bumped_branch vs1) (v_bumped_hash vs1) (v_bumped_ts vs1) else vs1 in
  (* --tag-version *)
  let r3 :=
    match o_tag_version a with
    | Some t =>
      match parse_version (g_input_format a) t with
      | OOk z => let p := z_vars z in
                 OOk {| v_major := v_major p; v_minor := v_minor p; v_patch := v_patch p; v_epoch := v_epoch p; v_pre := v_pre p;
                        v_post := v_post p; v_dev := v_dev p;
                        v_distance := v_distance vs2; v_dirty := v_dirty vs2; v_bumped_branch := v_bumped_branch vs2;
                        v_bumped_hash := v_bumped_hash vs2; v_bumped_ts := v_bumped_ts vs2; v_last_branch := v_last_branch vs2;
                        v_last_hash := v_last_hash vs2; v_last_ts := v_last_ts vs2; v_last_tag := Some t; v_custom := v_custom vs2 |}
      | OErr => OErr
      | OPanic => OPanic
      end
    | None => OOk vs2
    end in
  match r3 with
  | OOk vs3 =>
    let r4 := match o_custom a with
              | Some (Some j) => OOk {| v_major := v_major vs3; v_minor := v_minor vs3; v_patch := v_patch vs3; v_epoch := v_epoch vs3; v_pre := v_pre vs3;
                                        v_post := v_post vs3; v_dev := v_dev vs3; v_distance := v_distance vs3; v_dirty := v_dirty vs3;
                                        v_bumped_branch := v_bumped_branch vs3; v_bumped_hash := v_bumped_hash vs3; v_bumped_ts := v_bumped_ts vs3;
                                        v_last_branch := v_last_branch vs3; v_last_hash := v_last_hash vs3; v_last_ts := v_last_ts vs3;
                                        v_last_tag := v_last_tag vs3; v_custom := j |}
              | Some None => OErr
              | None => OOk vs3
              end in
    match r4 with
    | OOk vs4 => OOk (if b_no_context a then set_ctx vs4 (Some 0) (Some false) None None None else vs4)
    | e => e
    end
  | e => e
  end.

(* ---- presets by name (schema/presets.rs FromStr) ---- *)
Definition S (l : list N) : str := l.
Definition n_standard := S [115;116;97;110;100;97;114;100].   Definition n_calver := S [99;97;108;118;101;114].
Definition n_no_context := S [45;110;111;45;99;111;110;116;101;120;116].  Definition n_context := S [45;99;111;110;116;101;120;116].
Definition n_base := S [45;98;97;115;101].  Definition n_pre := S [45;112;114;101;114;101;108;101;97;115;101].
Definition n_post := S [45;112;111;115;116].  Definition n_dev := S [45;100;101;118].

Definition strip_pref (p s : str) : option str := if is_prefix p s then Some (drop_n (length p) s) else None.

Definition preset_of_name (n : str) : option preset :=
  let go (f : family) (r : str) : option preset :=
    if str_eqb r [] then Some (Smart f)
    else if str_eqb r n_no_context then Some (SmartNoContext f)
    else if str_eqb r n_context then Some (SmartContext f)
    else match strip_pref n_base r with
         | Some r1 =>
           let '(t, r2) :=
             match strip_pref n_pre r1 with
             | Some r2 => match strip_pref n_post r2 with
                          | Some r3 => match strip_pref n_dev r3 with Some r4 => (TPrePostDev, r4) | None => (TPrePost, r3) end
                          | None => (TPre, r2)
                          end
             | None => (TBase, r1)
             end in
           if str_eqb r2 [] then Some (Fixed f t false) else if str_eqb r2 n_context then Some (Fixed f t true) else None
         | None => None
         end in
  match strip_pref n_standard n with
  | Some r => go Standard r
  | None => match strip_pref n_calver n with Some r => go Calver r | None => None end
  end.

(* ---- zerv_draft.rs ---- *)
Definition resolve_schema (a : vargs) (existing : option schema) (vs : vars) : option schema :=
  match g_schema a, g_schema_ron a with
  | None, Some r => r
  | Some n, None => match preset_of_name n with Some p => Some (schema_with_zerv p vs) | None => None end
  | Some _, Some _ => None
  | None, None => match existing with Some s => Some s | None => Some (schema_with_zerv (Smart Standard) vs) end
  end.

Definition normalize_epoch (z : zerv) : zerv :=
  match v_epoch (z_vars z) with
  | Some 0 => {| z_schema := z_schema z; z_vars := set_epoch (z_vars z) None |}
  | _ => z
  end.

(* process_bumped_timestamp: the first of the two clock reads *)
Definition bump_timestamp (now : N) (z : zerv) : zerv :=
  match v_dirty (z_vars z) with
  | Some true => {| z_schema := z_schema z;
                    z_vars := set_ctx (z_vars z) (v_distance (z_vars z)) (v_dirty (z_vars z)) (v_bumped_branch (z_vars z))
                                      (v_bumped_hash (z_vars z)) (Some now) |}
  | _ => z
  end.

(* ZervDraft::to_zerv *)
Definition to_zerv (a : vargs) (vs0 : vars) (existing : option schema) (now : N) : outcome zerv :=
  match apply_context_overrides a vs0 with
  | OOk vs =>
    match resolve_schema a existing vs with
    | Some s =>
      if schema_validate s then
        let z := {| z_schema := s; z_vars := vs |} in
        match resolve_args a with
        | Some ra => match apply_component_processing ra z with
                     | Some z' => OOk (normalize_epoch (bump_timestamp now z'))
                     | None => OErr
                     end
        | None => OErr
        end
      else OErr
    | None => OErr
    end
  | OErr => OErr
  | OPanic => OPanic
  end.

(* run_version_pipeline up to the Zerv object; stdin = the parsed stdin object (None: no stdin; Some None: not valid Zerv RON) *)
Definition version_zerv (a : vargs) (stdin : option (option zerv)) (now : N) : outcome zerv :=
  if negb (validate_args a) then OErr
  else
    let src := match g_source a with Some s => s | None => match stdin with Some _ => SrcStdin | None => SrcGit end end in
    match src with
    | SrcNone => to_zerv a empty_vars None now
    | SrcStdin => match stdin with
                  | Some (Some z) => to_zerv a (z_vars z) (Some (z_schema z)) now
                  | _ => OErr
                  end
    | SrcGit => OErr      (* git source: Model/Git.v *)
    end.

Definition version_output (a : vargs) (stdin : option (option zerv)) (now : N) : outcome str :=
  match version_zerv a stdin now with
  | OOk z =>
    match g_output_format a with
    | OutSemver => OOk (match g_prefix a with Some p => p | None => [] end ++ semver_print (semver_of_zerv z))
    | OutPep440 => match pep_of_zerv z with
                   | Some p => OOk (match g_prefix a with Some p' => p' | None => [] end ++ pep_print p)
                   | None => OPanic
                   end
    | OutZerv => OOk (zerv_ron z)
    end
  | OErr => OErr
  | OPanic => OPanic
  end.
