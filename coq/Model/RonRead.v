(* Model of the reader of a RON string literal: ron 0.12 `Parser::escaped_string` / `parse_escape` on code points, as a one-pass state machine.
   `ron_read_string t` expects t to start with the opening quote and returns the value and the text after the closing quote.
   Not modelled (None): `\x` escapes of 0x80 and above (multi-byte UTF-8 assembled from several `\x` escapes), raw strings r#"..."#.  No proofs here. *)
From ZV Require Export Str.
Open Scope N_scope.

Inductive rstate := RNormal | REsc | RUOpen | RUHex (v : N) (k : nat) | RX1 | RX2 (h : N).

(* Parser::decode_hex *)
Definition hexv (c : cp) : option N :=
  if (48 <=? c) && (c <=? 57) then Some (c - 48)
  else if (97 <=? c) && (c <=? 102) then Some (c - 87)
  else if (65 <=? c) && (c <=? 70) then Some (c - 55)
  else None.

(* char::from_u32 *)
Definition is_scalar (v : N) : bool := (v <? 55296) || ((57344 <=? v) && (v <? 1114112)).

Fixpoint ron_run (t : str) (st : rstate) (out : str) : option (str * str) :=
  match t with
  | [] => None                                        (* ExpectedStringEnd *)
  | c :: t' =>
    match st with
    | RNormal => if c =? 34 then Some (out, t') else if c =? 92 then ron_run t' REsc out else ron_run t' RNormal (out ++ [c])
    | REsc =>
      if c =? 39 then ron_run t' RNormal (out ++ [39]) else if c =? 34 then ron_run t' RNormal (out ++ [34])
      else if c =? 92 then ron_run t' RNormal (out ++ [92]) else if c =? 110 then ron_run t' RNormal (out ++ [10])
      else if c =? 114 then ron_run t' RNormal (out ++ [13]) else if c =? 116 then ron_run t' RNormal (out ++ [9])
      else if c =? 48 then ron_run t' RNormal (out ++ [0]) else if c =? 120 then ron_run t' RX1 out
      else if c =? 117 then ron_run t' RUOpen out else None
    | RUOpen => if c =? 123 then ron_run t' (RUHex 0 0) out else None
    | RUHex v k =>
      if Nat.ltb k 6 then
        if c =? 125 then (match k with O => None | _ => if is_scalar v then ron_run t' RNormal (out ++ [v]) else None end)
        else match hexv c with Some d => ron_run t' (RUHex (16 * v + d) (S k)) out | None => None end
      else if c =? 125 then (if is_scalar v then ron_run t' RNormal (out ++ [v]) else None) else None
    | RX1 => match hexv c with Some d => ron_run t' (RX2 d) out | None => None end
    | RX2 h => match hexv c with Some d => if 16 * h + d <? 128 then ron_run t' RNormal (out ++ [16 * h + d]) else None | None => None end
    end
  end.

Definition ron_read_string (t : str) : option (str * str) :=
  match t with c :: t' => if c =? 34 then ron_run t' RNormal [] else None | [] => None end.

(* ron::from_str::<String>: white space, one string literal, then only white space (comments not modelled) *)
Definition ron_ws (c : cp) : bool := (c =? 32) || (c =? 9) || (c =? 10) || (c =? 13) || (c =? 11) || (c =? 12) || (c =? 133) || (c =? 8206) || (c =? 8207) || (c =? 8232) || (c =? 8233).
Fixpoint drop_ws (t : str) : str := match t with c :: t' => if ron_ws c then drop_ws t' else t | [] => [] end.
Definition ron_string_document (t : str) : option str :=
  match ron_read_string (drop_ws t) with Some (v, rest) => if forallb ron_ws rest then Some v else None | None => None end.
