(* std::collections::hash_map::DefaultHasher::new() = SipHash-1-3 with keys (0,0), as used by the template
   functions hash / hash_int: `input.hash(&mut hasher)` writes the UTF-8 bytes followed by 0xFF.  No proofs. *)
From ZV Require Export Str Dec.
Open Scope N_scope.

Definition M64 : N := 18446744073709551616.
Definition w64 (x : N) : N := x mod M64.
Definition rotl (x : N) (b : N) : N := w64 (N.lor (N.shiftl x b) (N.shiftr x (64 - b))).
Definition add64 (a b : N) : N := w64 (a + b).

Definition sipround (s : N * N * N * N) : N * N * N * N :=
  let '(v0, v1, v2, v3) := s in
  let v0 := add64 v0 v1 in let v1 := rotl v1 13 in let v1 := N.lxor v1 v0 in let v0 := rotl v0 32 in
  let v2 := add64 v2 v3 in let v3 := rotl v3 16 in let v3 := N.lxor v3 v2 in
  let v0 := add64 v0 v3 in let v3 := rotl v3 21 in let v3 := N.lxor v3 v0 in
  let v2 := add64 v2 v1 in let v1 := rotl v1 17 in let v1 := N.lxor v1 v2 in let v2 := rotl v2 32 in
  (v0, v1, v2, v3).

Definition utf8_bytes (c : cp) : list N :=
  if c <? 128 then [c]
  else if c <? 2048 then [192 + c / 64; 128 + c mod 64]
  else if c <? 65536 then [224 + c / 4096; 128 + (c / 64) mod 64; 128 + c mod 64]
  else [240 + c / 262144; 128 + (c / 4096) mod 64; 128 + (c / 64) mod 64; 128 + c mod 64].

Definition str_bytes (s : str) : list N := flat_map utf8_bytes s.

(* little-endian value of up to 8 bytes *)
Fixpoint le_word (bs : list N) : N :=
  match bs with [] => 0 | b :: r => b + 256 * le_word r end.

(* consume full 8-byte words *)
Fixpoint sip_words (fuel : nat) (bs : list N) (s : N * N * N * N) : (N * N * N * N) * list N :=
  match fuel with
  | O => (s, bs)
  | S f =>
    match bs with
    | b0 :: b1 :: b2 :: b3 :: b4 :: b5 :: b6 :: b7 :: rest =>
      let m := le_word [b0; b1; b2; b3; b4; b5; b6; b7] in
      let '(v0, v1, v2, v3) := s in
      let '(v0, v1, v2, v3) := sipround (v0, v1, v2, N.lxor v3 m) in
      sip_words f rest (N.lxor v0 m, v1, v2, v3)
    | _ => (s, bs)
    end
  end.

Definition siphash13 (bs : list N) : N :=
  let len := N.of_nat (length bs) in
  let s0 := (8317987319222330741, 7237128888997146477, 7816392313619706465, 8387220255154660723) in
  let '(s1, tail) := sip_words (length bs) bs s0 in
  let b := (len mod 256) * 72057594037927936 + le_word tail in
  let '(v0, v1, v2, v3) := s1 in
  let '(v0, v1, v2, v3) := sipround (v0, v1, v2, N.lxor v3 b) in
  let v0 := N.lxor v0 b in
  let v2 := N.lxor v2 255 in
  let '(v0, v1, v2, v3) := sipround (sipround (sipround (v0, v1, v2, v3))) in
  N.lxor (N.lxor v0 v1) (N.lxor v2 v3).

(* <str as Hash>::hash with DefaultHasher *)
Definition hash_str (s : str) : N := siphash13 (str_bytes s ++ [255]).

(* hash_int(value, length, allow_leading_zero): the first `length` characters of the decimal text
   (zero-padded to `length`, capped at 65535, when leading zeros are allowed) *)
Definition hash_int (s : str) (length : nat) (allow_lead0 : bool) : str :=
  let digits := print_dec (hash_str s) in
  let txt := if allow_lead0 then repeat 48 (Nat.min length (N.to_nat 65535) - List.length digits) ++ digits else digits in
  take_n length txt.

(* hash(value, length): the first `length` characters of the lower-case hexadecimal text *)
Fixpoint hex_digits (fuel : nat) (n : N) (acc : str) : str :=
  match fuel with
  | O => acc
  | S f => let d := n mod 16 in
           let c := if d <? 10 then 48 + d else 87 + d in
           if n / 16 =? 0 then c :: acc else hex_digits f (n / 16) (c :: acc)
  end.
Definition hash_hex (s : str) (length : nat) : str := take_n length (hex_digits 17 (hash_str s) []).
