(* Model of src/vcs/git.rs + git_utils.rs + version_object.rs (batch parsing) + pipeline/vcs_data_to_zerv_vars.rs over an abstract
   repository: the commits reachable from HEAD in the order `git rev-list --topo-order HEAD` prints them, each with its parents,
   committer time and hash; the tags (name, commit they dereference to) in the order `git tag` lists them; branch; work-tree state.
   No proofs here. *)
From ZV Require Export Zerv SemVer Pep440 Convert.
Open Scope N_scope.

Record commit := { c_id : N; c_parents : list N; c_time : Z; c_hash : str }.
Record gitrepo := {
  g_commits : list commit;          (* reachable from HEAD, topo order: HEAD first; empty = no commits *)
  g_tags : list (str * N);          (* tag name, id of the commit it points at (annotated tags dereferenced); ids outside g_commits = unreachable *)
  g_branch : option str;            (* None = detached HEAD *)
  g_dirty : bool
}.

(* ---- version_object.rs: batch parsing of the tags of one commit: all results have one format ---- *)
Fixpoint keep_some {A B} (f : A -> option B) (l : list A) : list (A * B) :=
  match l with
  | [] => []
  | x :: l' => match f x with Some y => (x, y) :: keep_some f l' | None => keep_some f l' end
  end.

Inductive batch := BSem (l : list (str * semver)) | BPep (l : list (str * pep)).

Definition batch_parse (f : fmt) (names : list str) : batch :=
  let sem := keep_some semver_parse names in
  let pep := keep_some pep_parse names in
  match f with
  | FSemver => BSem sem
  | FPep440 => BPep pep
  | FAuto => if Nat.leb (length pep) (length sem) then BSem sem else BPep pep      (* the first list of maximal length; SemVer wins ties *)
  end.

(* find_max_version_tag: Iterator::max_by keeps the last maximum *)
Definition max_of {V} (cmp : V -> V -> comparison) (l : list (str * V)) : option str :=
  match l with
  | [] => None
  | x :: l' => Some (fst (max_by_last (fun a b => cmp (snd a) (snd b)) x l'))
  end.

Definition max_tag (b : batch) : option str :=
  match b with BSem l => max_of semver_cmp l | BPep l => max_of pep_cmp l end.

(* ---- git.rs ---- *)
Definition tags_at (r : gitrepo) (c : N) : list str := map fst (filter (fun t => snd t =? c) (g_tags r)).

(* get_latest_tag: the first commit of the topo order that has a valid tag; its maximal tag *)
Fixpoint latest_tag_in (r : gitrepo) (f : fmt) (cs : list commit) : option (str * N) :=
  match cs with
  | [] => None
  | c :: cs' =>
    match max_tag (batch_parse f (tags_at r (c_id c))) with
    | Some t => Some (t, c_id c)
    | None => latest_tag_in r f cs'
    end
  end.
Definition latest_tag (r : gitrepo) (f : fmt) : option (str * N) := latest_tag_in r f (g_commits r).

Definition find_commit (r : gitrepo) (c : N) : option commit := find (fun x => c_id x =? c) (g_commits r).

(* ancestors-or-self of c among the listed commits.  The list is in topological order (children before parents), so one pass in
   list order suffices: a commit already marked marks its parents; a commit not marked when it is reached never will be. *)
Definition mem (x : N) (l : list N) : bool := existsb (N.eqb x) l.
Fixpoint mark (cs : list commit) (seen : list N) : list N :=
  match cs with
  | [] => seen
  | x :: cs' => if mem (c_id x) seen then mark cs' (seen ++ c_parents x) else mark cs' seen
  end.
Definition ancestors (r : gitrepo) (c : N) : list N := mark (g_commits r) [c].

(* `git rev-list --count <tag>..HEAD` *)
Definition distance (r : gitrepo) (c : N) : N :=
  let anc := ancestors r c in
  N.of_nat (length (filter (fun x => negb (mem (c_id x) anc)) (g_commits r))).

Definition g_prefix_hash (h : str) : str := 103 :: h.

(* get_vcs_data + vcs_data_to_zerv_vars: None = error (no commits / no tag found / tag does not parse) *)
Definition git_vars (r : gitrepo) (f : fmt) : option vars :=
  match g_commits r with
  | [] => None
  | head :: _ =>
    match latest_tag r f with
    | None => None
    | Some (tag, tc) =>
      match parse_version f tag with
      | OOk z =>
        let p := z_vars z in
        let tcommit := find_commit r tc in
        Some {| v_major := v_major p; v_minor := v_minor p; v_patch := v_patch p; v_epoch := v_epoch p; v_pre := v_pre p; v_post := v_post p; v_dev := v_dev p;
                v_distance := Some (distance r tc); v_dirty := Some (g_dirty r);
                v_bumped_branch := g_branch r; v_bumped_hash := Some (g_prefix_hash (c_hash head));
                v_bumped_ts := Some (Z.to_N (c_time head));
                v_last_branch := None;
                v_last_hash := omap (fun c => g_prefix_hash (c_hash c)) tcommit;
                v_last_ts := omap (fun c => Z.to_N (c_time c)) tcommit;
                v_last_tag := Some tag; v_custom := JNull |}
      | _ => None
      end
    end
  end.

(* is the commit list a topological order: ids unique, every parent listed after its child (so the list is closed under parents) *)
Fixpoint topo_ok (cs : list commit) : bool :=
  match cs with
  | [] => true
  | c :: cs' => forallb (fun p => mem p (map c_id cs')) (c_parents c) && negb (mem (c_id c) (map c_id cs')) && topo_ok cs'
  end.
