(* Model of `Zerv::to_string()` = ron::ser::to_string_pretty(zerv, PrettyConfig::default()):
   the exact pretty layout the `ron` 0.12 serializer emits for this type.  No proofs here.
   Restrictions (stated in DESIGN.md): custom JSON without floats; non-ASCII characters other than U+0080..U+00A0, U+00AD, U+0301, U+200B, U+2028,
   U+3000, U+FEFF are assumed printable (char::escape_debug prints them raw). *)
From ZV Require Export Zerv Bump.
Open Scope N_scope.

Definition S_ (l : list N) : str := l.
Definition nl : str := [10].
Fixpoint indent (n : nat) : str := match n with O => [] | S k => [32;32;32;32] ++ indent k end.

(* lower-case hexadecimal without leading zeros *)
Fixpoint hex_of (fuel : nat) (n : N) (acc : str) : str :=
  match fuel with
  | O => acc
  | S f => let d := n mod 16 in
           let c := if d <? 10 then 48 + d else 87 + d in
           if n / 16 =? 0 then c :: acc else hex_of f (n / 16) (c :: acc)
  end.

(* char::escape_debug as used for string contents *)
Definition escape_char (c : cp) : str :=
  if c =? 34 then [92; 34] else if c =? 92 then [92; 92] else if c =? 39 then [92; 39]
  else if c =? 10 then [92; 110] else if c =? 13 then [92; 114] else if c =? 9 then [92; 116] else if c =? 0 then [92; 48]
  else if (c <? 32) || ((127 <=? c) && (c <=? 160)) || (c =? 173) || (c =? 769) || (c =? 8203) || (c =? 8232) || (c =? 12288) || (c =? 65279)
  then [92; 117; 123] ++ hex_of 8 c [] ++ [125]
  else [c].

Definition ron_string (s : str) : str := [34] ++ flat_map escape_char s ++ [34].

Definition var_ron (v : var) : str :=
  match v with
  | Major => S_ [77;97;106;111;114] | Minor => S_ [77;105;110;111;114] | Patch => S_ [80;97;116;99;104]
  | Epoch => S_ [69;112;111;99;104] | PreRelease => S_ [80;114;101;82;101;108;101;97;115;101] | Post => S_ [80;111;115;116]
  | Dev => S_ [68;101;118] | Distance => S_ [68;105;115;116;97;110;99;101] | Dirty => S_ [68;105;114;116;121]
  | BumpedBranch => S_ [66;117;109;112;101;100;66;114;97;110;99;104]
  | BumpedCommitHash => S_ [66;117;109;112;101;100;67;111;109;109;105;116;72;97;115;104]
  | BumpedCommitHashShort => S_ [66;117;109;112;101;100;67;111;109;109;105;116;72;97;115;104;83;104;111;114;116]
  | BumpedTimestamp => S_ [66;117;109;112;101;100;84;105;109;101;115;116;97;109;112]
  | LastBranch => S_ [76;97;115;116;66;114;97;110;99;104]
  | LastCommitHash => S_ [76;97;115;116;67;111;109;109;105;116;72;97;115;104]
  | LastCommitHashShort => S_ [76;97;115;116;67;111;109;109;105;116;72;97;115;104;83;104;111;114;116]
  | LastTimestamp => S_ [76;97;115;116;84;105;109;101;115;116;97;109;112]
  | Custom n => S_ [99;117;115;116;111;109;40] ++ ron_string n ++ [41]
  | Ts p => S_ [116;115;40] ++ ron_string p ++ [41]
  end.

Definition comp_ron (c : component) : str :=
  match c with
  | CStr s => S_ [115;116;114;40] ++ ron_string s ++ [41]
  | CUInt n => S_ [117;105;110;116;40] ++ print_dec n ++ [41]
  | CVar v => S_ [118;97;114;40] ++ var_ron v ++ [41]
  end.

Definition prec_ron (p : prec) : str :=
  match p with
  | PEpoch => S_ [69;112;111;99;104] | PMajor => S_ [77;97;106;111;114] | PMinor => S_ [77;105;110;111;114] | PPatch => S_ [80;97;116;99;104]
  | PCore => S_ [67;111;114;101] | PPreLabel => S_ [80;114;101;82;101;108;101;97;115;101;76;97;98;101;108]
  | PPreNum => S_ [80;114;101;82;101;108;101;97;115;101;78;117;109] | PPost => S_ [80;111;115;116] | PDev => S_ [68;101;118]
  | PExtraCore => S_ [69;120;116;114;97;67;111;114;101] | PBuild => S_ [66;117;105;108;100]
  end.

(* a sequence at depth d (the opening bracket is already on the current line) *)
Definition ron_seq (d : nat) (items : list str) : str :=
  match items with
  | [] => [91; 93]
  | _ => [91] ++ nl ++ flat_map (fun it => indent (Datatypes.S d) ++ it ++ [44] ++ nl) items ++ indent d ++ [93]
  end.

Definition s_some (x : str) : str := S_ [83;111;109;101;40] ++ x ++ [41].
Definition s_none_ : str := S_ [78;111;110;101].
Definition opt_ron {A} (f : A -> str) (o : option A) : str := match o with Some x => s_some (f x) | None => s_none_ end.

Definition field (d : nat) (name : str) (value : str) : str := indent d ++ name ++ [58; 32] ++ value ++ [44] ++ nl.

(* serde_json::Map is a BTreeMap<String, Value>: keys in byte (= code point) order, a repeated key replaces the earlier value *)
Fixpoint key_cmp (a b : str) : comparison :=
  match a, b with
  | [], [] => Eq | [], _ => Lt | _, [] => Gt
  | x :: a', y :: b' => match N.compare x y with Eq => key_cmp a' b' | c => c end
  end.

Fixpoint obj_insert (k : str) (v : json) (l : list (str * json)) : list (str * json) :=
  match l with
  | [] => [(k, v)]
  | (k', v') :: t => match key_cmp k k' with Lt => (k, v) :: l | Eq => (k, v) :: t | Gt => (k', v') :: obj_insert k v t end
  end.

(* serde_json::Value *)
Fixpoint json_ron (fuel : nat) (d : nat) (j : json) : str :=
  match fuel with
  | O => []
  | S f =>
    match j with
    | JNull => [40; 41]
    | JBool true => s_true
    | JBool false => s_false
    | JNum t => t
    | JStr s => ron_string s
    | JArr l => ron_seq d (map (json_ron f (Datatypes.S d)) l)
    | JObj [] => [123; 125]
    | JObj l => [123] ++ nl ++ flat_map (fun kv => indent (Datatypes.S d) ++ ron_string (fst kv) ++ [58; 32] ++ json_ron f (Datatypes.S d) (snd kv) ++ [44] ++ nl) l
                ++ indent d ++ [125]
    end
  end.

Fixpoint json_depth (j : json) : nat :=
  match j with
  | JArr l => Datatypes.S (fold_right Nat.max O (map json_depth l))
  | JObj l => Datatypes.S (fold_right Nat.max O (map (fun kv => json_depth (snd kv)) l))
  | _ => 1%nat
  end.

Definition label_ron (l : label) : str :=
  match l with Alpha => S_ [65;108;112;104;97] | Beta => S_ [66;101;116;97] | Rc => S_ [82;99] end.

Definition N_ (l : list N) : str := l.

Definition prevar_ron (d : nat) (p : prevar) : str :=
  [40] ++ nl ++ field (Datatypes.S d) (N_ [108;97;98;101;108]) (label_ron (pr_label p))
  ++ field (Datatypes.S d) (N_ [110;117;109;98;101;114]) (opt_ron print_dec (pr_num p)) ++ indent d ++ [41].

Definition schema_ron (s : schema) : str :=
  [40] ++ nl
  ++ field 2 (N_ [99;111;114;101]) (ron_seq 2 (map comp_ron (s_core s)))
  ++ field 2 (N_ [101;120;116;114;97;95;99;111;114;101]) (ron_seq 2 (map comp_ron (s_extra s)))
  ++ field 2 (N_ [98;117;105;108;100]) (ron_seq 2 (map comp_ron (s_build s)))
  ++ field 2 (N_ [112;114;101;99;101;100;101;110;99;101;95;111;114;100;101;114]) (ron_seq 2 (map prec_ron (prec_order s)))
  ++ indent 1 ++ [41].

Definition vars_ron (v : vars) : str :=
  let num := opt_ron print_dec in
  let txt := opt_ron ron_string in
  [40] ++ nl
  ++ field 2 (N_ [109;97;106;111;114]) (num (v_major v)) ++ field 2 (N_ [109;105;110;111;114]) (num (v_minor v))
  ++ field 2 (N_ [112;97;116;99;104]) (num (v_patch v)) ++ field 2 (N_ [101;112;111;99;104]) (num (v_epoch v))
  ++ field 2 (N_ [112;114;101;95;114;101;108;101;97;115;101]) (opt_ron (prevar_ron 2) (v_pre v))
  ++ field 2 (N_ [112;111;115;116]) (num (v_post v)) ++ field 2 (N_ [100;101;118]) (num (v_dev v))
  ++ field 2 (N_ [100;105;115;116;97;110;99;101]) (num (v_distance v))
  ++ field 2 (N_ [100;105;114;116;121]) (opt_ron (fun b : bool => if b then s_true else s_false) (v_dirty v))
  ++ field 2 (N_ [98;117;109;112;101;100;95;98;114;97;110;99;104]) (txt (v_bumped_branch v))
  ++ field 2 (N_ [98;117;109;112;101;100;95;99;111;109;109;105;116;95;104;97;115;104]) (txt (v_bumped_hash v))
  ++ field 2 (N_ [98;117;109;112;101;100;95;116;105;109;101;115;116;97;109;112]) (num (v_bumped_ts v))
  ++ field 2 (N_ [108;97;115;116;95;98;114;97;110;99;104]) (txt (v_last_branch v))
  ++ field 2 (N_ [108;97;115;116;95;99;111;109;109;105;116;95;104;97;115;104]) (txt (v_last_hash v))
  ++ field 2 (N_ [108;97;115;116;95;116;105;109;101;115;116;97;109;112]) (num (v_last_ts v))
  ++ field 2 (N_ [108;97;115;116;95;116;97;103;95;118;101;114;115;105;111;110]) (txt (v_last_tag v))
  ++ field 2 (N_ [99;117;115;116;111;109]) (json_ron (json_depth (v_custom v)) 2 (v_custom v))
  ++ indent 1 ++ [41].

Definition zerv_ron (z : zerv) : str :=
  [40] ++ nl ++ field 1 (N_ [115;99;104;101;109;97]) (schema_ron (z_schema z)) ++ field 1 (N_ [118;97;114;115]) (vars_ron (z_vars z)) ++ [41].
