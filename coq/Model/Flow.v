(* Model of `zerv flow` (the cli/flow module): branch rules, the two-pass pipeline and its five bump templates
   written out as the conditions they evaluate to.  No proofs here. *)
From ZV Require Export Cli Hash.
Open Scope N_scope.

Inductive postmode := ModeTag | ModeCommit.
Record rule := { r_pattern : str; r_label : label; r_num : option N; r_mode : postmode }.

Definition s_star : str := [42].
Definition ends_slash_star (p : str) : bool :=
  match rev p with a :: b :: _ => (a =? 42) && (b =? 47) | _ => false end.

(* BranchRule::matches *)
Definition rule_matches (r : rule) (branch : str) : bool :=
  let p := r_pattern r in
  if str_eqb p s_star then negb (match branch with [] => true | _ => false end)
  else if ends_slash_star p then
    let prefix := take_n (length p - 1) p in          (* keeps the slash *)
    is_prefix prefix branch && Nat.ltb (length prefix) (length branch)
  else str_eqb p branch.

(* find_first_numeric_segment: the first non-empty all-digit path segment, if it fits u32 *)
Definition first_numeric_segment (path : str) : option N :=
  match find (fun seg => negb (match seg with [] => true | _ => false end) && all_b is_ascii_digit seg) (split_on 47 path) with
  | Some seg => parse_u32 seg
  | None => None
  end.

Definition extract_branch_number (r : rule) (branch : str) : option N :=
  let p := r_pattern r in
  if str_eqb p s_star then first_numeric_segment branch
  else if negb (ends_slash_star p) then None
  else
    let prefix := take_n (length p - 1) p in
    if negb (is_prefix prefix branch) || Nat.eqb (length branch) (length prefix) then None
    else first_numeric_segment (drop_n (length prefix) branch).

Definition rule_valid (r : rule) : bool :=
  let p := r_pattern r in
  if str_eqb p s_star then negb (is_some (r_num r))
  else if ends_slash_star p then negb (is_some (r_num r))
  else is_some (r_num r).

(* BranchRules::resolve_for_branch *)
Definition resolve_for_branch (rules : list rule) (branch : option str) : label * option N * postmode :=
  match branch with
  | Some b =>
    match find (fun r => rule_matches r b) rules with
    | Some r => (r_label r, match r_num r with Some n => Some n | None => extract_branch_number r b end, r_mode r)
    | None => (Alpha, None, ModeCommit)
    end
  | None => (Alpha, None, ModeCommit)
  end.

Definition default_rules : list rule :=
  [ {| r_pattern := [100;101;118;101;108;111;112]; r_label := Beta; r_num := Some 1; r_mode := ModeCommit |};
    {| r_pattern := [114;101;108;101;97;115;101;47;42]; r_label := Rc; r_num := None; r_mode := ModeTag |};
    {| r_pattern := s_star; r_label := Alpha; r_num := None; r_mode := ModeCommit |} ].

Record fargs := {
  f_base : vargs;                  (* input, output, schema, common overrides (tag_version .. post); everything else unset *)
  f_label : option label;          (* --pre-release-label *)
  f_num : option N;                (* --pre-release-num *)
  f_mode : option postmode;        (* --post-mode *)
  f_rules : option (list rule);    (* --branch-rules (parsed); None = default rules *)
  f_hash_len : N
}.

(* create_version_args: the version arguments of either pass (bumps are supplied separately) *)
Definition pass_args (f : fargs) (dirty : bool) : vargs :=
  let b := f_base f in
  {| g_source := g_source b; g_input_format := g_input_format b; g_output_format := OutZerv; g_prefix := None;
     g_schema := g_schema b; g_schema_ron := g_schema_ron b;
     o_tag_version := o_tag_version b; o_distance := o_distance b; o_dirty := dirty; o_no_dirty := o_no_dirty b; o_clean := o_clean b;
     o_branch := o_branch b; o_hash := o_hash b; o_ts := o_ts b;
     o_major := o_major b; o_minor := o_minor b; o_patch := o_patch b; o_epoch := o_epoch b; o_post := o_post b;
     o_dev := None; o_pre_label := None; o_pre_num := None; o_custom := None; o_core := []; o_extra := []; o_build := [];
     b_major := None; b_minor := None; b_patch := None; b_post := None; b_dev := None; b_pre_num := None; b_epoch := None;
     b_pre_label := None; b_core := []; b_extra := []; b_build := []; b_context := false; b_no_context := false |}.

(* the resolved arguments of a pass: overrides as in `zerv version`; --post defaults to the template {{ post }},
   i.e. the post number the object has BEFORE any bump *)
Definition flow_overrides (a : vargs) (z : zerv) : option bargs :=
  match resolve_args a with
  | Some ra =>
    Some {| ro_major := ro_major ra; ro_minor := ro_minor ra; ro_patch := ro_patch ra; ro_epoch := ro_epoch ra;
            ro_post := match o_post a with Some _ => ro_post ra | None => v_post (z_vars z) end;
            ro_dev := None; ro_pre_num := None; ro_pre_label := None; ro_core := []; ro_extra := []; ro_build := [];
            rb_major := None; rb_minor := None; rb_patch := None; rb_epoch := None; rb_post := None; rb_dev := None; rb_pre_num := None;
            rb_pre_label := None; rb_core := []; rb_extra := []; rb_build := [] |}
  | None => None
  end.

Definition u32_fits (n : N) : bool := n <? 4294967296.

(* the five bump templates, evaluated on the object of the second pass (before bumps) *)
Definition flow_bumps (lab : label) (num : option N) (mode : postmode) (hash_len : N) (now : N) (a : vargs) (z : zerv) : option bargs :=
  match flow_overrides a z with
  | None => None
  | Some o =>
    let vs := z_vars z in
    let dirty := opt_true (v_dirty vs) in
    let ahead := opt_pos (v_distance vs) in
    let cond := dirty || ahead in
    let numv := match num with
                | Some n => Some n
                | None => parse_dec (hash_int (match v_bumped_branch vs with Some b => b | None => [] end) (N.to_nat hash_len) false)
                end in
    (* Template<u32>: a value that does not fit u32 is a template error *)
    let num_ok := negb cond || match numv with Some n => u32_fits n | None => false end in
    let post_amount := match mode with
                       | ModeCommit => v_distance vs          (* {{ distance }} : nothing when distance is unset *)
                       | ModeTag => Some 1
                       end in
    let post_ok := negb cond || match post_amount with Some n => u32_fits n | None => true end in
    let dev_on := match mode with ModeTag => cond | ModeCommit => dirty end in
    if negb (num_ok && post_ok && (negb dev_on || u32_fits now)) then None
    else
      Some {| ro_major := ro_major o; ro_minor := ro_minor o; ro_patch := ro_patch o; ro_epoch := ro_epoch o; ro_post := ro_post o;
              ro_dev := None; ro_pre_num := None; ro_pre_label := None; ro_core := []; ro_extra := []; ro_build := [];
              rb_major := None; rb_minor := None;
              rb_patch := if negb (is_some (v_pre vs)) && cond then Some 1 else None;
              rb_epoch := None;
              rb_post := if cond then post_amount else None;
              rb_dev := if dev_on then Some now else None;
              rb_pre_num := if cond then numv else None;
              rb_pre_label := if cond then Some (label_str lab) else None;
              rb_core := []; rb_extra := []; rb_build := [] |}
  end.

(* to_zerv with an explicit resolver for the arguments *)
Definition to_zerv_with (a : vargs) (resolver : zerv -> option bargs) (vs0 : vars) (existing : option schema) (now : N) : outcome zerv :=
  match apply_context_overrides a vs0 with
  | OOk vs =>
    match resolve_schema a existing vs with
    | Some s =>
      if schema_validate s then
        let z := {| z_schema := s; z_vars := vs |} in
        match resolver z with
        | Some ra => match apply_component_processing ra z with
                     | Some z' => OOk (normalize_epoch (bump_timestamp now z'))
                     | None => OErr
                     end
        | None => OErr
        end
      else OErr
    | None => OErr
    end
  | OErr => OErr
  | OPanic => OPanic
  end.

Definition run_pass (a : vargs) (resolver : zerv -> option bargs) (stdin : option (option zerv)) (now : N) : outcome zerv :=
  if negb (validate_args a) then OErr
  else
    let src := match g_source a with Some s => s | None => match stdin with Some _ => SrcStdin | None => SrcGit end end in
    match src with
    | SrcNone => to_zerv_with a resolver empty_vars None now
    | SrcStdin => match stdin with
                  | Some (Some z) => to_zerv_with a resolver (z_vars z) (Some (z_schema z)) now
                  | _ => OErr
                  end
    | SrcGit => OErr
    end.

Definition starts_with_standard (n : str) : bool := is_prefix n_standard n.

Definition flow_validate (f : fargs) : bool :=
  let b := f_base f in
  (0 <? f_hash_len f) && (f_hash_len f <=? 10)
  && (match g_schema b with
      | Some n => is_some (preset_of_name n) && starts_with_standard n
      | None => true end)
  && negb (o_clean b && (is_some (o_distance b) || o_dirty b || o_no_dirty b))
  && negb (o_dirty b && o_no_dirty b)
  && match f_rules f with Some rs => forallb rule_valid rs | None => true end.

(* run_flow_pipeline up to the final Zerv object *)
Definition flow_zerv (f : fargs) (stdin : option (option zerv)) (now : N) : outcome zerv :=
  let b := f_base f in
  let a1 := pass_args f (o_dirty b) in
  match run_pass a1 (flow_overrides a1) stdin now with
  | OOk cur =>
    if negb (flow_validate f) then OErr
    else
      let rules := match f_rules f with Some rs => rs | None => default_rules end in
      let '(rl, rn, rm) := resolve_for_branch rules (v_bumped_branch (z_vars cur)) in
      let lab := match f_label f with Some l => l | None => rl end in
      let num := match f_num f with Some n => Some n | None => rn end in
      let mode := match f_mode f with Some m => m | None => rm end in
      (* override_dirty *)
      let dirty2 :=
        if negb (o_dirty b) && negb (o_no_dirty b) then
          match mode with
          | ModeTag => if opt_true (v_dirty (z_vars cur)) || opt_pos (v_distance (z_vars cur)) then true else o_dirty b
          | ModeCommit => o_dirty b
          end
        else o_dirty b in
      let a2 := pass_args f dirty2 in
      run_pass a2 (flow_bumps lab num mode (f_hash_len f) now a2) stdin now
  | OErr => OErr
  | OPanic => OPanic
  end.

Definition flow_output (f : fargs) (stdin : option (option zerv)) (now : N) : outcome str :=
  match flow_zerv f stdin now with
  | OOk z =>
    let pre := match g_prefix (f_base f) with Some p => p | None => [] end in
    match g_output_format (f_base f) with
    | OutSemver => OOk (pre ++ semver_print (semver_of_zerv z))
    | OutPep440 => match pep_of_zerv z with Some p => OOk (pre ++ pep_print p) | None => OPanic end
    | OutZerv => OOk (zerv_ron z)
    end
  | OErr => OErr
  | OPanic => OPanic
  end.
