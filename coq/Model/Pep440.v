(* Model of src/version/pep440/{core,parser,display,ordering,utils}.rs and `zerv check --format pep440`.
   The regex's captures are modelled by a priority-ordered backtracking scanner that makes the
   leftmost-first choices of PEP440_REGEX explicit.  No proofs here. *)
From ZV Require Export Str Dec Rx RegexSrc Sanitize.

Inductive label := Alpha | Beta | Rc.
Inductive lseg := LStr (s : str) | LUInt (n : N).

Record pep := {
  p_epoch : N;
  p_release : list N;
  p_pre_label : option label;
  p_pre_num : option N;
  p_post_label : bool;
  p_post_num : option N;
  p_dev_label : bool;
  p_dev_num : option N;
  p_local : option (list lseg)
}.

(* ---------------- display.rs ---------------- *)
Definition label_print (l : label) : str :=
  match l with Alpha => [97] | Beta => [98] | Rc => [114; 99] end.

Definition lseg_print (g : lseg) : str := match g with LStr s => s | LUInt n => print_dec n end.
Definition local_print (l : list lseg) : str := intercalate [c_dot] (map lseg_print l).
Definition release_nums_print (r : list N) : str := intercalate [c_dot] (map print_dec r).

Definition epoch_release_print (e : N) (r : list N) : str :=
  (if 0 <? e then print_dec e ++ [c_bang] else []) ++ release_nums_print r.

Definition num_opt_print (o : option N) : str := match o with Some n => print_dec n | None => [] end.

(* format_pre_release_section with the normalized separators *)
Definition pre_section_print (v : pep) : str :=
  (match p_pre_label v with Some l => label_print l ++ num_opt_print (p_pre_num v) | None => [] end)
  ++ (if p_post_label v then [c_dot; 112; 111; 115; 116] ++ num_opt_print (p_post_num v) else [])
  ++ (if p_dev_label v then [c_dot; 100; 101; 118] ++ num_opt_print (p_dev_num v) else []).

Definition pep_print (v : pep) : str :=
  epoch_release_print (p_epoch v) (p_release v) ++ pre_section_print v
  ++ match p_local v with Some l => [c_plus] ++ local_print l | None => [] end.

(* ---------------- parser.rs: the captures ---------------- *)
Definition sep_char (c : cp) : bool := (c =? 45) || (c =? 95) || (c =? 46).

(* `[-_\.]?` greedy: taking the separator has priority *)
Definition opt_sep (s : str) : list str :=
  match s with c :: t => if sep_char c then [t; s] else [s] | [] => [s] end.

(* case-insensitive (ASCII) literal; lit is lower case *)
Fixpoint ci_prefix (lit s : str) : option str :=
  match lit, s with
  | [], _ => Some s
  | x :: lit', y :: s' => if N.eqb x (ascii_lower y) then ci_prefix lit' s' else None
  | _ :: _, [] => None
  end.

(* `([0-9]+)?` greedy *)
Definition opt_digits (s : str) : list (option str * str) :=
  let (d, r) := span is_ascii_digit s in
  match d with [] => [(None, s)] | _ => [(Some d, r); (None, s)] end.

Definition first_some {A B} (f : A -> option B) (l : list A) : option B :=
  (fix go (l : list A) : option B :=
     match l with [] => None | x :: l' => match f x with Some y => Some y | None => go l' end end) l.

Definition lit (s : list N) : str := s.
Definition L_alpha := lit [97;108;112;104;97].      Definition L_a := lit [97].
Definition L_beta := lit [98;101;116;97].           Definition L_b := lit [98].
Definition L_preview := lit [112;114;101;118;105;101;119].  Definition L_pre := lit [112;114;101].
Definition L_c := lit [99].                          Definition L_rc := lit [114;99].
Definition L_post := lit [112;111;115;116].          Definition L_rev := lit [114;101;118].
Definition L_r := lit [114].                         Definition L_dev := lit [100;101;118].

(* alternation order of the source regex: alpha|a|beta|b|preview|pre|c|rc *)
Definition pre_labels : list (str * label) :=
  [(L_alpha, Alpha); (L_a, Alpha); (L_beta, Beta); (L_b, Beta); (L_preview, Rc); (L_pre, Rc); (L_c, Rc); (L_rc, Rc)].
Definition post_labels : list str := [L_post; L_rev; L_r].

Record caps := {
  k_epoch : option str;
  k_release : list str;
  k_pre : option (label * option str);
  k_post : option (option str);     (* Some n = post group matched, with post_n1 / post_n2 *)
  k_dev : option (option str);
  k_local : option str
}.

(* local: [a-z0-9]+([-_.][a-z0-9]+)*  (case-insensitive), up to the end of the input *)
Definition local_char (c : cp) : bool := is_ascii_alnum c.
Fixpoint local_ok_aux (s : str) (need_char : bool) : bool :=
  match s with
  | [] => negb need_char
  | c :: t => if local_char c then local_ok_aux t false
              else if sep_char c then (if need_char then false else local_ok_aux t true)
              else false
  end.
Definition local_ok (s : str) : bool := local_ok_aux s true.

(* tail := (\+local)?$ *)
Definition scan_tail (s : str) : option (option str) :=
  match s with
  | [] => Some None
  | c :: t => if c =? 43 then (if local_ok t then Some (Some t) else None) else None
  end.

(* dev := ([-_.]? dev [-_.]? ([0-9]+)?)? *)
Definition scan_dev {B} (k : option (option str) -> str -> option B) (s : str) : option B :=
  match first_some (fun s1 =>
          match ci_prefix L_dev s1 with
          | Some s2 => first_some (fun s3 => first_some (fun '(n, s4) => k (Some n) s4) (opt_digits s3)) (opt_sep s2)
          | None => None
          end) (opt_sep s) with
  | Some r => Some r
  | None => k None s
  end.

(* post := ( -([0-9]+) | [-_.]? (post|rev|r) [-_.]? ([0-9]+)? )? *)
Definition scan_post {B} (k : option (option str) -> str -> option B) (s : str) : option B :=
  let alt1 :=
    match s with
    | c :: t => if c =? 45 then
                  let (d, r) := span is_ascii_digit t in
                  match d with [] => None | _ => k (Some (Some d)) r end
                else None
    | [] => None
    end in
  match alt1 with
  | Some r => Some r
  | None =>
    match first_some (fun s1 =>
            first_some (fun l =>
              match ci_prefix l s1 with
              | Some s2 => first_some (fun s3 => first_some (fun '(n, s4) => k (Some n) s4) (opt_digits s3)) (opt_sep s2)
              | None => None
              end) post_labels) (opt_sep s) with
    | Some r => Some r
    | None => k None s
    end
  end.

(* pre := ([-_.]? label [-_.]? ([0-9]+)?)? *)
Definition scan_pre {B} (k : option (label * option str) -> str -> option B) (s : str) : option B :=
  match first_some (fun s1 =>
          first_some (fun '(l, lab) =>
            match ci_prefix l s1 with
            | Some s2 => first_some (fun s3 => first_some (fun '(n, s4) => k (Some (lab, n)) s4) (opt_digits s3)) (opt_sep s2)
            | None => None
            end) pre_labels) (opt_sep s) with
  | Some r => Some r
  | None => k None s
  end.

(* release := [0-9]+(\.[0-9]+)*   greedy; options from the longest down *)
Fixpoint release_more (fuel : nat) (acc : list str) (s : str) (opts : list (list str * str)) : list (list str * str) :=
  match fuel with
  | O => (rev acc, s) :: opts
  | S f =>
    match s with
    | c :: t => if c =? 46 then
                  let (d, r) := span is_ascii_digit t in
                  match d with
                  | [] => (rev acc, s) :: opts
                  | _ => release_more f (d :: acc) r ((rev acc, s) :: opts)
                  end
                else (rev acc, s) :: opts
    | [] => (rev acc, s) :: opts
    end
  end.

Definition release_options (s : str) : list (list str * str) :=
  let (d, r) := span is_ascii_digit s in
  match d with
  | [] => []
  | _ => release_more (length r) [d] r []
  end.

Definition scan_from_release (ep : option str) (s : str) : option caps :=
  first_some (fun '(rel, s1) =>
    scan_pre (fun pre s2 =>
      scan_post (fun post s3 =>
        scan_dev (fun dev s4 =>
          match scan_tail s4 with
          | Some loc => Some {| k_epoch := ep; k_release := rel; k_pre := pre; k_post := post; k_dev := dev; k_local := loc |}
          | None => None
          end) s3) s2) s1) (release_options s).

Definition strip_v_ci (s : str) : str :=
  match s with c :: t => if (c =? 118) || (c =? 86) then t else s | [] => s end.

Definition pep_caps (s : str) : option caps :=
  let s := strip_v_ci s in
  let (d, r) := span is_ascii_digit s in
  let with_epoch :=
    match d, r with
    | _ :: _, c :: t => if c =? 33 then scan_from_release (Some d) t else None
    | _, _ => None
    end in
  match with_epoch with
  | Some k => Some k
  | None => scan_from_release None s
  end.

(* ---------------- parser.rs: conversion of the captures ---------------- *)
Definition num32 (d : str) : option N := parse_u32 d.

Definition opt_num32 (o : option str) : option (option N) :=
  match o with None => Some None | Some d => match num32 d with Some n => Some (Some n) | None => None end end.

(* parse_local_segments + LocalSegment::try_new_str (= pep440_local_str sanitiser, must not contain '.') *)
Definition local_part (p : str) : option lseg :=
  if (match p with [] => false | _ => true end) && all_b is_ascii_digit p then
    match parse_u32 p with Some n => Some (LUInt n) | None => Some (LStr (drop_while (N.eqb c_0) p)) end
  else
    let z := sanitize pep440_local_str p in
    if existsb (N.eqb c_dot) z then None      (* the unwrap() panics: modelled as no result *)
    else Some (LStr z).

Definition parse_local_segments (l : str) : option (list lseg) :=
  let norm := map (fun c => if (c =? 45) || (c =? 95) then c_dot else c) l in
  (fix go (ps : list str) : option (list lseg) :=
     match ps with
     | [] => Some []
     | p :: ps' => match local_part p, go ps' with Some x, Some xs => Some (x :: xs) | _, _ => None end
     end) (split_on c_dot norm).

(* normalize_local_segment: lower-case, all-digit strings that fit u32 become integers *)
Definition normalize_lseg (g : lseg) : lseg :=
  match g with
  | LStr s => let l := map ascii_lower s in
              match parse_u32 l with Some n => LUInt n | None => LStr l end
  | LUInt n => LUInt n
  end.

Fixpoint map_opt_n (f : str -> option N) (l : list str) : option (list N) :=
  match l with
  | [] => Some []
  | x :: l' => match f x, map_opt_n f l' with Some y, Some ys => Some (y :: ys) | _, _ => None end
  end.

Definition pep_of_caps (k : caps) : option pep :=
  match map_opt_n num32 (k_release k),
        (match k_epoch k with Some d => num32 d | None => Some 0 end),
        (match k_pre k with Some (l, n) => match opt_num32 n with Some n' => Some (Some l, n') | None => None end
                          | None => Some (None, None) end),
        (match k_post k with Some n => match opt_num32 n with Some n' => Some (true, n') | None => None end | None => Some (false, None) end),
        (match k_dev k with Some n => match opt_num32 n with Some n' => Some (true, n') | None => None end | None => Some (false, None) end),
        (match k_local k with Some l => match parse_local_segments l with Some x => Some (Some x) | None => None end | None => Some None end)
  with
  | Some rel, Some ep, Some (pl, pn), Some (ql, qn), Some (dl, dn), Some loc =>
    (* normalize(): implicit numbers become 0, local segments are normalised *)
    Some {| p_epoch := ep; p_release := rel;
            p_pre_label := pl; p_pre_num := match pl, pn with Some _, None => Some 0 | _, _ => pn end;
            p_post_label := ql; p_post_num := if ql then match qn with None => Some 0 | _ => qn end else qn;
            p_dev_label := dl; p_dev_num := if dl then match dn with None => Some 0 | _ => dn end else dn;
            p_local := option_map (map normalize_lseg) loc |}
  | _, _, _, _, _, _ => None
  end.

Definition pep_extract (s : str) : option pep :=
  match pep_caps s with Some k => pep_of_caps k | None => None end.

(* PEP440::from_str: acceptance by the regex regenerated from the source *)
Definition pep_parse (s : str) : option pep :=
  if rx_accepts pep440_src (map pep440_atom_of s) then pep_extract s else None.

(* ---------------- ordering.rs ---------------- *)
Definition label_rank (l : label) : N := match l with Alpha => 0 | Beta => 1 | Rc => 2 end.
Definition label_cmp (a b : label) : comparison := N.compare (label_rank a) (label_rank b).

Fixpoint pstr_cmp (a b : str) : comparison :=
  match a, b with
  | [], [] => Eq
  | [], _ :: _ => Lt
  | _ :: _, [] => Gt
  | x :: a', y :: b' => match N.compare x y with Eq => pstr_cmp a' b' | r => r end
  end.

Definition lseg_cmp (a b : lseg) : comparison :=
  match a, b with
  | LUInt x, LUInt y => N.compare x y
  | LStr x, LStr y => pstr_cmp (map ascii_lower x) (map ascii_lower y)
  | LUInt _, LStr _ => Lt
  | LStr _, LUInt _ => Gt
  end.

Fixpoint lsegs_cmp (l r : list lseg) : comparison :=
  match l, r with
  | [], [] => Eq
  | [], _ :: _ => Lt
  | _ :: _, [] => Gt
  | x :: l', y :: r' => match lseg_cmp x y with Eq => lsegs_cmp l' r' | c => c end
  end.

(* compare_release_versions: position by position, missing = 0 *)
Fixpoint zeros_cmp (l : list N) : comparison :=      (* l against 0,0,0,... *)
  match l with [] => Eq | x :: l' => match N.compare x 0 with Eq => zeros_cmp l' | c => c end end.

Fixpoint release_cmp (l r : list N) : comparison :=
  match l, r with
  | [], _ => CompOpp (zeros_cmp r)
  | _ :: _, [] => zeros_cmp l
  | x :: l', y :: r' => match N.compare x y with Eq => release_cmp l' r' | c => c end
  end.

Definition tw (c d : comparison) : comparison := match c with Eq => d | _ => c end.
Definition num0 (o : option N) : N := match o with Some n => n | None => 0 end.

Definition pep_cmp (a b : pep) : comparison :=
  tw (N.compare (p_epoch a) (p_epoch b))
  (tw (release_cmp (p_release a) (p_release b))
  (tw (match p_pre_label a, p_pre_label b with
       | None, None => Eq | None, Some _ => Gt | Some _, None => Lt
       | Some x, Some y => tw (label_cmp x y) (N.compare (num0 (p_pre_num a)) (num0 (p_pre_num b)))
       end)
  (tw (match p_post_label a, p_post_label b with
       | false, false => Eq | false, true => Lt | true, false => Gt
       | true, true => N.compare (num0 (p_post_num a)) (num0 (p_post_num b))
       end)
  (tw (match p_dev_label a, p_dev_label b with
       | false, false => Eq | false, true => Gt | true, false => Lt
       | true, true => N.compare (num0 (p_dev_num a)) (num0 (p_dev_num b))
       end)
      (match p_local a, p_local b with
       | None, None => Eq | None, Some _ => Lt | Some _, None => Gt
       | Some x, Some y => lsegs_cmp x y
       end))))).

Definition pep_eqb (a b : pep) : bool := match pep_cmp a b with Eq => true | _ => false end.

(* ---------------- `zerv check --format pep440` ---------------- *)
Definition pep_check (s : str) : option (str * bool) :=
  match pep_parse s with
  | Some v => let p := pep_print v in Some (p, negb (str_eqb p s))
  | None => None
  end.
