(* Model of src/version/zerv/utils/timestamp.rs (tokenize_pattern, resolve_timestamp) and of the
   strftime items it uses.  No proofs. *)
From ZV Require Export Calendar.
Open Scope N_scope.

Definition is_pattern_char (c : cp) : bool :=
  (c =? 89) || (c =? 77) || (c =? 68) || (c =? 72) || (c =? 109) || (c =? 83) || (c =? 87).   (* Y M D H m S W *)

(* tokenize_pattern: (tokens reversed, current reversed, previous char) *)
Fixpoint tokenize_loop (s : str) (toks : list str) (cur : str) (prev : option cp) : option (list str) :=
  let fin (toks : list str) (cur : str) := match cur with [] => toks | _ => rev cur :: toks end in
  match s with
  | [] => Some (rev (fin toks cur))
  | c :: s' =>
    if c =? 48 then tokenize_loop s' (fin toks cur) [c] (Some c)
    else if (match prev with Some p => (p =? 48) || ((p =? c) && is_pattern_char c) | None => false end)
    then tokenize_loop s' toks (c :: cur) (Some c)
    else if is_pattern_char c then tokenize_loop s' (fin toks cur) [c] (Some c)
    else None
  end.

Definition s_YYYY : str := [89;89;89;89].  Definition s_YY : str := [89;89].
Definition s_MM : str := [77;77].          Definition s_0M : str := [48;77].
Definition s_DD : str := [68;68].          Definition s_0D : str := [48;68].
Definition s_HH : str := [72;72].          Definition s_0H : str := [48;72].
Definition s_mm : str := [109;109].        Definition s_0m : str := [48;109].
Definition s_SS : str := [83;83].          Definition s_0S : str := [48;83].
Definition s_WW : str := [87;87].          Definition s_0W : str := [48;87].
Definition s_compact_date : str := [99;111;109;112;97;99;116;95;100;97;116;101].
Definition s_compact_datetime : str := [99;111;109;112;97;99;116;95;100;97;116;101;116;105;109;101].

Definition valid_patterns : list str :=
  [s_compact_date; s_compact_datetime; s_YYYY; s_YY; s_MM; s_0M; s_DD; s_0D; s_HH; s_0H; s_mm; s_0m; s_SS; s_0S; s_WW; s_0W].

Definition tokenize_pattern (p : str) : option (list str) :=
  match tokenize_loop p [] [] None with
  | Some toks => if forallb (fun t => existsb (str_eqb t) valid_patterns) toks then Some toks else None
  | None => None
  end.

(* ---- strftime items ---- *)
Definition zdec (z : Z) : str := print_dec (Z.to_N z).             (* z >= 0 *)
Definition pad2 (z : Z) : str := if (z <? 10)%Z then 48 :: zdec z else zdec z.
Definition pad_to (w : nat) (s : str) : str := repeat 48 (w - length s) ++ s.

(* %Y : 0..9999 zero-padded to 4; otherwise sign and at least 4 digits *)
Definition fmt_Y (y : Z) : str :=
  if ((0 <=? y) && (y <=? 9999))%Z then pad_to 4 (zdec y)
  else if (y <? 0)%Z then 45 :: pad_to 4 (zdec (- y)) else 43 :: pad_to 4 (zdec y).
(* %y : year modulo 100 (Euclidean), two digits *)
Definition fmt_y (y : Z) : str := pad2 (y mod 100).

Definition u64_as_i64 (t : N) : Z := if t <? 9223372036854775808 then Z.of_N t else (Z.of_N t - 18446744073709551616)%Z.

Definition token_value (d : dt) (t : str) : str :=
  if str_eqb t s_YYYY then fmt_Y (dt_year d)
  else if str_eqb t s_YY then fmt_y (dt_year d)
  else if str_eqb t s_MM then zdec (dt_month d)
  else if str_eqb t s_0M then pad2 (dt_month d)
  else if str_eqb t s_WW then zdec (dt_week d)
  else if str_eqb t s_0W then pad2 (dt_week d)
  else if str_eqb t s_DD then zdec (dt_day d)
  else if str_eqb t s_0D then pad2 (dt_day d)
  else if str_eqb t s_HH then zdec (dt_hour d)
  else if str_eqb t s_0H then pad2 (dt_hour d)
  else if str_eqb t s_mm then zdec (dt_min d)
  else if str_eqb t s_0m then pad2 (dt_min d)
  else if str_eqb t s_SS then zdec (dt_sec d)
  else if str_eqb t s_0S then pad2 (dt_sec d)
  else t.

(* resolve_timestamp(pattern, timestamp): None = Err *)
Definition resolve_timestamp (p : str) (t : N) : option str :=
  let d := dt_of_secs (u64_as_i64 t) in
  if negb (chrono_year_ok (dt_year d)) then None
  else if str_eqb p s_compact_date then Some (fmt_Y (dt_year d) ++ pad2 (dt_month d) ++ pad2 (dt_day d))
  else if str_eqb p s_compact_datetime then
    Some (fmt_Y (dt_year d) ++ pad2 (dt_month d) ++ pad2 (dt_day d) ++ pad2 (dt_hour d) ++ pad2 (dt_min d) ++ pad2 (dt_sec d))
  else match tokenize_pattern p with
       | Some toks => Some (concat (map (token_value d) toks))
       | None => None
       end.

(* schema validation: is_valid_timestamp_pattern *)
Definition is_valid_timestamp_pattern (p : str) : bool :=
  existsb (str_eqb p) valid_patterns || (match p with c :: _ => c =? 37 | [] => false end).
