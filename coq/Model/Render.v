(* Model of src/version/semver/from_zerv.rs and src/version/pep440/from_zerv.rs, loop for loop,
   and of src/schema/{presets,components}.rs.  No proofs here. *)
From ZV Require Export Zerv SemVer Pep440.
Open Scope N_scope.

Definition nonempty (s : str) : bool := match s with [] => false | _ => true end.

(* ---------------- SemVer::from(Zerv) ---------------- *)
Definition classify_u64 (part : str) : ident :=
  match parse_u64 part with Some n => IUInt n | None => IStr part end.

(* add_flattened_to_prerelease / add_flattened_to_build *)
Definition flatten_ids (value : str) : list ident :=
  map classify_u64 (filter nonempty (split_on c_dot value)).

Definition push_ids (o : option (list ident)) (l : list ident) : option (list ident) :=
  match l with [] => o | _ => Some (match o with Some x => x ++ l | None => l end) end.

Record sv_acc := { a_major : N; a_minor : N; a_patch : N; a_pre : option (list ident); a_build : option (list ident) }.

(* process_core *)
Fixpoint sv_process_core (cs : list component) (vs : vars) (count : nat) (a : sv_acc) : sv_acc :=
  match cs with
  | [] => a
  | c :: cs' =>
    let as_int :=
      match comp_value c vs uint_sanitizer with
      | Some v => if nonempty v then match parse_u64 v with Some n => if Nat.ltb count 3 then Some n else None | None => None end else None
      | None => None
      end in
    match as_int with
    | Some n =>
      let a' := match count with
                | O => {| a_major := n; a_minor := a_minor a; a_patch := a_patch a; a_pre := a_pre a; a_build := a_build a |}
                | S O => {| a_major := a_major a; a_minor := n; a_patch := a_patch a; a_pre := a_pre a; a_build := a_build a |}
                | _ => {| a_major := a_major a; a_minor := a_minor a; a_patch := n; a_pre := a_pre a; a_build := a_build a |}
                end in
      sv_process_core cs' vs (S count) a'
    | None =>
      let a' := match comp_value c vs semver_str with
                | Some v => if nonempty v
                            then {| a_major := a_major a; a_minor := a_minor a; a_patch := a_patch a;
                                    a_pre := push_ids (a_pre a) (flatten_ids v); a_build := a_build a |}
                            else a
                | None => a
                end in
      sv_process_core cs' vs count a'
    end
  end.

(* process_secondary_var: every expanded value is one identifier (no splitting on dots) *)
Definition sv_secondary (v : var) (vs : vars) : list ident :=
  map classify_u64 (filter nonempty (var_expanded v vs semver_str)).

Definition sv_extra_ids (c : component) (vs : vars) : list ident :=
  match c with
  | CVar v => if is_secondary v then sv_secondary v vs
              else match comp_value c vs semver_str with Some x => if nonempty x then flatten_ids x else [] | None => [] end
  | _ => match comp_value c vs semver_str with Some x => if nonempty x then flatten_ids x else [] | None => [] end
  end.

Definition sv_build_ids (c : component) (vs : vars) : list ident :=
  match comp_value c vs semver_str with Some x => if nonempty x then flatten_ids x else [] | None => [] end.

Definition semver_of_zerv (z : zerv) : semver :=
  let vs := z_vars z in
  let a0 := {| a_major := 0; a_minor := 0; a_patch := 0; a_pre := None; a_build := None |} in
  let a1 := sv_process_core (s_core (z_schema z)) vs O a0 in
  let pre := fold_left (fun o c => push_ids o (sv_extra_ids c vs)) (s_extra (z_schema z)) (a_pre a1) in
  let build := fold_left (fun o c => push_ids o (sv_build_ids c vs)) (s_build (z_schema z)) (a_build a1) in
  {| sv_major := a_major a1; sv_minor := a_minor a1; sv_patch := a_patch a1; sv_pre := pre; sv_build := build |}.

(* ---------------- PEP440::from(Zerv) ---------------- *)
(* add_flattened_to_local: LocalSegment::try_new_str(part).unwrap() is a panic site (None here) *)
Definition local_seg (part : str) : option lseg :=
  match parse_u32 part with
  | Some n => Some (LUInt n)
  | None => let z := sanitize pep440_local_str part in
            if existsb (N.eqb c_dot) z then None else Some (LStr z)
  end.

Fixpoint all_some {A} (l : list (option A)) : option (list A) :=
  match l with
  | [] => Some []
  | Some x :: l' => match all_some l' with Some xs => Some (x :: xs) | None => None end
  | None :: _ => None
  end.

Definition flatten_local (value : str) : option (list lseg) :=
  all_some (map local_seg (filter nonempty (split_on c_dot value))).

Definition push_local (o : option (list lseg)) (l : list lseg) : option (list lseg) :=
  match l with [] => o | _ => Some (match o with Some x => x ++ l | None => l end) end.

Definition u64_value (c : component) (vs : vars) : option N :=
  match comp_value c vs uint_sanitizer with
  | Some v => if nonempty v then parse_u64 v else None
  | None => None
  end.

Definition u32_value (c : component) (vs : vars) : option N :=
  match comp_value c vs uint_sanitizer with
  | Some v => if nonempty v then parse_u32 v else None
  | None => None
  end.

Definition local_value (c : component) (vs : vars) : option (list lseg) :=   (* None = panic *)
  match comp_value c vs pep440_local_str with
  | Some x => if nonempty x then flatten_local x else Some []
  | None => Some []
  end.

(* PreReleaseLabel::from_str on the first expanded value *)
Definition label_of_str (s : str) : option label :=
  if str_eqb s (label_str Alpha) then Some Alpha else if str_eqb s (label_str Beta) then Some Beta
  else if str_eqb s (label_str Rc) then Some Rc else None.

Record pep_acc := { q : pep; q_panic : bool }.

Definition set_pep (p : pep) (f : pep -> pep) : pep := f p.

Definition pep_add_local (a : pep_acc) (l : option (list lseg)) : pep_acc :=
  match l with
  | None => {| q := q a; q_panic := true |}
  | Some segs =>
    let p := q a in
    {| q := {| p_epoch := p_epoch p; p_release := p_release p; p_pre_label := p_pre_label p; p_pre_num := p_pre_num p;
               p_post_label := p_post_label p; p_post_num := p_post_num p; p_dev_label := p_dev_label p; p_dev_num := p_dev_num p;
               p_local := push_local (p_local p) segs |};
       q_panic := q_panic a |}
  end.

Definition pep_core_step (vs : vars) (a : pep_acc) (c : component) : pep_acc :=
  match u32_value c vs with
  | Some n =>
    let p := q a in
    {| q := {| p_epoch := p_epoch p; p_release := p_release p ++ [n]; p_pre_label := p_pre_label p; p_pre_num := p_pre_num p;
               p_post_label := p_post_label p; p_post_num := p_post_num p; p_dev_label := p_dev_label p; p_dev_num := p_dev_num p;
               p_local := p_local p |}; q_panic := q_panic a |}
  | None => pep_add_local a (local_value c vs)
  end.

Definition pep_extra_step (vs : vars) (a : pep_acc) (c : component) : pep_acc :=
  let p := q a in
  let upd (f : pep) := {| q := f; q_panic := q_panic a |} in
  match c with
  | CVar Epoch =>
    match u32_value c vs with
    | Some n => upd {| p_epoch := n; p_release := p_release p; p_pre_label := p_pre_label p; p_pre_num := p_pre_num p;
                       p_post_label := p_post_label p; p_post_num := p_post_num p; p_dev_label := p_dev_label p; p_dev_num := p_dev_num p;
                       p_local := p_local p |}
    | None => a
    end
  | CVar PreRelease =>
    match var_expanded PreRelease vs pep440_local_str with
    | e0 :: rest =>
      if nonempty e0 then
        let lab := match label_of_str e0 with Some l => Some l | None => p_pre_label p end in
        let num := match rest with
                   | e1 :: _ => if nonempty e1 then match parse_u32 e1 with Some n => Some n | None => p_pre_num p end else p_pre_num p
                   | [] => p_pre_num p
                   end in
        upd {| p_epoch := p_epoch p; p_release := p_release p; p_pre_label := lab; p_pre_num := num;
               p_post_label := p_post_label p; p_post_num := p_post_num p; p_dev_label := p_dev_label p; p_dev_num := p_dev_num p;
               p_local := p_local p |}
      else a
    | [] => a
    end
  | CVar Post =>
    match u32_value c vs with
    | Some n => upd {| p_epoch := p_epoch p; p_release := p_release p; p_pre_label := p_pre_label p; p_pre_num := p_pre_num p;
                       p_post_label := true; p_post_num := Some n; p_dev_label := p_dev_label p; p_dev_num := p_dev_num p;
                       p_local := p_local p |}
    | None => a
    end
  | CVar Dev =>
    match u32_value c vs with
    | Some n => upd {| p_epoch := p_epoch p; p_release := p_release p; p_pre_label := p_pre_label p; p_pre_num := p_pre_num p;
                       p_post_label := p_post_label p; p_post_num := p_post_num p; p_dev_label := true; p_dev_num := Some n;
                       p_local := p_local p |}
    | None => a
    end
  | _ => pep_add_local a (local_value c vs)
  end.

Definition pep_build_step (vs : vars) (a : pep_acc) (c : component) : pep_acc := pep_add_local a (local_value c vs).

(* normalize() *)
Definition pep_normalize (p : pep) : pep :=
  {| p_epoch := p_epoch p; p_release := p_release p;
     p_pre_label := p_pre_label p;
     p_pre_num := match p_pre_label p, p_pre_num p with Some _, None => Some 0 | _, n => n end;
     p_post_label := p_post_label p;
     p_post_num := if p_post_label p then match p_post_num p with None => Some 0 | n => n end else p_post_num p;
     p_dev_label := p_dev_label p;
     p_dev_num := if p_dev_label p then match p_dev_num p with None => Some 0 | n => n end else p_dev_num p;
     p_local := option_map (map normalize_lseg) (p_local p) |}.

Definition pep_empty : pep :=
  {| p_epoch := 0; p_release := []; p_pre_label := None; p_pre_num := None; p_post_label := false; p_post_num := None;
     p_dev_label := false; p_dev_num := None; p_local := None |}.

(* None = the unwrap() in add_flattened_to_local panicked *)
Definition pep_of_zerv (z : zerv) : option pep :=
  let vs := z_vars z in
  let a1 := fold_left (pep_core_step vs) (s_core (z_schema z)) {| q := pep_empty; q_panic := false |} in
  let a1 := match p_release (q a1) with
            | [] => let p := q a1 in
                    {| q := {| p_epoch := p_epoch p; p_release := [0]; p_pre_label := p_pre_label p; p_pre_num := p_pre_num p;
                               p_post_label := p_post_label p; p_post_num := p_post_num p; p_dev_label := p_dev_label p;
                               p_dev_num := p_dev_num p; p_local := p_local p |}; q_panic := q_panic a1 |}
            | _ => a1 end in
  let a2 := fold_left (pep_extra_step vs) (s_extra (z_schema z)) a1 in
  let a3 := fold_left (pep_build_step vs) (s_build (z_schema z)) a2 in
  if q_panic a3 then None else Some (pep_normalize (q a3)).

(* ---------------- schema presets ---------------- *)
Definition standard_core : list component := [CVar Major; CVar Minor; CVar Patch].
Definition calver_core : list component := [CVar (Ts s_YYYY); CVar (Ts s_MM); CVar (Ts s_DD); CVar Patch].
Definition epoch_extra : list component := [CVar Epoch].
Definition prerelease_extra : list component := [CVar Epoch; CVar PreRelease].
Definition prerelease_post_extra : list component := [CVar Epoch; CVar PreRelease; CVar Post].
Definition prerelease_post_dev_extra : list component := [CVar Epoch; CVar PreRelease; CVar Post; CVar Dev].
Definition build_context : list component := [CVar BumpedBranch; CVar Distance; CVar BumpedCommitHashShort].

Inductive family := Standard | Calver.
Inductive tier := TBase | TPre | TPrePost | TPrePostDev.
Inductive preset :=
| Smart (f : family)            (* standard / calver: smart tier, smart build context *)
| SmartNoContext (f : family)
| SmartContext (f : family)
| Fixed (f : family) (t : tier) (ctx : bool).

Definition core_of (f : family) := match f with Standard => standard_core | Calver => calver_core end.
Definition extra_of (t : tier) :=
  match t with TBase => epoch_extra | TPre => prerelease_extra | TPrePost => prerelease_post_extra | TPrePostDev => prerelease_post_dev_extra end.

Definition fixed_schema (f : family) (t : tier) (ctx : bool) : schema :=
  {| s_core := core_of f; s_extra := extra_of t; s_build := if ctx then build_context else []; s_prec := default_prec |}.

Definition is_some {A} (o : option A) : bool := match o with Some _ => true | None => false end.
Definition opt_true (o : option bool) : bool := match o with Some b => b | None => false end.
Definition opt_pos (o : option N) : bool := match o with Some n => 0 <? n | None => false end.

(* smart_standard_schema / smart_calver_schema: the tier *)
Definition smart_tier (vs : vars) : tier :=
  if opt_true (v_dirty vs) then TPrePostDev
  else if opt_pos (v_distance vs) || (is_some (v_pre vs) && is_some (v_post vs)) then TPrePost
  else if is_some (v_pre vs) then TPre
  else TBase.

Definition schema_with_zerv (p : preset) (vs : vars) : schema :=
  match p with
  | Smart f => fixed_schema f (smart_tier vs) (opt_true (v_dirty vs) || opt_pos (v_distance vs))
  | SmartNoContext f => fixed_schema f (smart_tier vs) false
  | SmartContext f => fixed_schema f (smart_tier vs) true
  | Fixed f t ctx => fixed_schema f t ctx
  end.
