(* Decimal text <-> N, built on the standard library's Decimal.uint conversions
   (N.of_uint / N.to_uint) whose round trips are proved in DecimalN. *)
From Coq Require Import Decimal DecimalN.
From ZV Require Export Str.

Definition digit_cons (c : cp) (u : uint) : option uint :=
  if c =? 48 then Some (D0 u) else if c =? 49 then Some (D1 u) else if c =? 50 then Some (D2 u)
  else if c =? 51 then Some (D3 u) else if c =? 52 then Some (D4 u) else if c =? 53 then Some (D5 u)
  else if c =? 54 then Some (D6 u) else if c =? 55 then Some (D7 u) else if c =? 56 then Some (D8 u)
  else if c =? 57 then Some (D9 u) else None.

Fixpoint uint_of_str (s : str) : option uint :=
  match s with
  | [] => Some Nil
  | c :: s' => match uint_of_str s' with Some u => digit_cons c u | None => None end
  end.

Fixpoint str_of_uint (u : uint) : str :=
  match u with
  | Nil => []
  | D0 u => 48 :: str_of_uint u | D1 u => 49 :: str_of_uint u | D2 u => 50 :: str_of_uint u
  | D3 u => 51 :: str_of_uint u | D4 u => 52 :: str_of_uint u | D5 u => 53 :: str_of_uint u
  | D6 u => 54 :: str_of_uint u | D7 u => 55 :: str_of_uint u | D8 u => 56 :: str_of_uint u
  | D9 u => 57 :: str_of_uint u
  end.

(* value of a non-empty all-digit string (leading zeros allowed); None otherwise *)
Definition parse_dec (s : str) : option N :=
  match s with
  | [] => None
  | _ => match uint_of_str s with Some u => Some (N.of_uint u) | None => None end
  end.

(* Rust's Display for unsigned integers *)
Definition print_dec (n : N) : str := str_of_uint (N.to_uint n).

(* canonical decimal numeral: "0" or digits not starting with '0' *)
Definition canonical_dec (s : str) : bool :=
  match s with
  | [] => false
  | [c] => is_ascii_digit c
  | c :: _ => all_b is_ascii_digit s && negb (c =? 48)
  end.

(* Rust FromStr for uN: optional leading '+', then at least one ASCII digit, value < 2^bits *)
Definition parse_uint_bits (bits : N) (s : str) : option N :=
  let s' := match s with c :: t => if c =? 43 then t else s | [] => s end in
  match parse_dec s' with
  | Some n => if n <? 2 ^ bits then Some n else None
  | None => None
  end.
Definition parse_u32 := parse_uint_bits 32.
Definition parse_u64 := parse_uint_bits 64.
Definition u32_max : N := 4294967295.
Definition u64_max : N := 18446744073709551615.
