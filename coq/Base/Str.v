(* Strings as lists of Unicode scalar values (N).  Character classes, UTF-8 byte
   lengths, prefix / split / trim / intercalate — the executable vocabulary every
   model file uses.  No proofs here (they live in Proofs/StrFacts.v). *)
From Coq Require Export List NArith Bool.
Export ListNotations.
Open Scope N_scope.

Definition cp := N.
Definition str := list cp.

Fixpoint str_eqb (a b : str) : bool :=
  match a, b with
  | [], [] => true
  | x :: a', y :: b' => N.eqb x y && str_eqb a' b'
  | _, _ => false
  end.

(* ---- ASCII classes (Rust char::is_ascii_xxx) ---- *)
Definition is_ascii (c : cp) : bool := c <? 128.
Definition is_ascii_digit (c : cp) : bool := (48 <=? c) && (c <=? 57).
Definition is_ascii_upper (c : cp) : bool := (65 <=? c) && (c <=? 90).
Definition is_ascii_lower (c : cp) : bool := (97 <=? c) && (c <=? 122).
Definition is_ascii_alpha (c : cp) : bool := is_ascii_upper c || is_ascii_lower c.
Definition is_ascii_alnum (c : cp) : bool := is_ascii_alpha c || is_ascii_digit c.
Definition ascii_lower (c : cp) : cp := if is_ascii_upper c then c + 32 else c.
Definition ascii_upper (c : cp) : cp := if is_ascii_lower c then c - 32 else c.

(* Unicode White_Space (Rust: char::is_whitespace) — the complete, stable list *)
Definition is_whitespace (c : cp) : bool :=
  ((9 <=? c) && (c <=? 13)) || (c =? 32) || (c =? 133) || (c =? 160) || (c =? 5760)
  || ((8192 <=? c) && (c <=? 8202)) || (c =? 8232) || (c =? 8233) || (c =? 8239)
  || (c =? 8287) || (c =? 12288).

(* ---- UTF-8 ---- *)
Definition utf8_len (c : cp) : N :=
  if c <? 128 then 1 else if c <? 2048 then 2 else if c <? 65536 then 3 else 4.
Fixpoint byte_len (s : str) : N :=
  match s with [] => 0 | c :: s' => utf8_len c + byte_len s' end.

(* ---- generic list-of-cp helpers ---- *)
Fixpoint is_prefix (p s : str) : bool :=
  match p, s with
  | [], _ => true
  | x :: p', y :: s' => N.eqb x y && is_prefix p' s'
  | _ :: _, [] => false
  end.

Fixpoint drop_n (n : nat) (s : str) : str :=
  match n, s with
  | O, _ => s
  | S n', _ :: s' => drop_n n' s'
  | S _, [] => []
  end.

Definition all_b (f : cp -> bool) (s : str) : bool := forallb f s.

(* span p s = (longest prefix satisfying p, rest) *)
Fixpoint span (p : cp -> bool) (s : str) : str * str :=
  match s with
  | [] => ([], [])
  | c :: s' => if p c then let (a, b) := span p s' in (c :: a, b) else ([], s)
  end.

Fixpoint drop_while (p : cp -> bool) (s : str) : str :=
  match s with
  | [] => []
  | c :: s' => if p c then drop_while p s' else s
  end.

Definition drop_while_end (p : cp -> bool) (s : str) : str :=
  rev (drop_while p (rev s)).

(* Rust str::trim() *)
Definition trim_ws (s : str) : str := drop_while_end is_whitespace (drop_while is_whitespace s).

(* split on a single character: Rust s.split(c) — always at least one piece *)
Fixpoint split_on (c : cp) (s : str) : list str :=
  match s with
  | [] => [[]]
  | x :: s' =>
      if N.eqb x c then [] :: split_on c s'
      else match split_on c s' with
           | [] => [[x]]            (* unreachable *)
           | p :: ps => (x :: p) :: ps
           end
  end.

(* split on a non-empty string pattern, leftmost non-overlapping: Rust s.split(pat).
   fuel = length s + 1 *)
Fixpoint split_str_fuel (fuel : nat) (pat s : str) : list str :=
  match fuel with
  | O => [s]
  | S fuel' =>
      match s with
      | [] => [[]]
      | x :: s' =>
          if is_prefix pat s then [] :: split_str_fuel fuel' pat (drop_n (length pat) s)
          else match split_str_fuel fuel' pat s' with
               | [] => [[x]]
               | p :: ps => (x :: p) :: ps
               end
      end
  end.
Definition split_str (pat s : str) : list str :=
  match pat with
  | [] => [] :: map (fun c => [c]) s ++ [[]]      (* Rust: an empty pattern matches at every character boundary *)
  | _ => split_str_fuel (S (length s)) pat s
  end.

Fixpoint intercalate (sep : str) (l : list str) : str :=
  match l with
  | [] => []
  | [x] => x
  | x :: l' => x ++ sep ++ intercalate sep l'
  end.

(* Rust trim_start_matches(pat) for a non-empty string pattern *)
Fixpoint trim_start_str_fuel (fuel : nat) (pat s : str) : str :=
  match fuel with
  | O => s
  | S f => if is_prefix pat s then trim_start_str_fuel f pat (drop_n (length pat) s) else s
  end.
Definition trim_start_str (pat s : str) : str :=
  match pat with [] => s | _ => trim_start_str_fuel (length s) pat s end.
Definition trim_end_str (pat s : str) : str :=
  rev (trim_start_str (rev pat) (rev s)).

(* first n characters: Rust s.chars().take(n).collect() *)
Fixpoint take_n (n : nat) (s : str) : str :=
  match n, s with
  | O, _ => []
  | S n', c :: s' => c :: take_n n' s'
  | S _, [] => []
  end.

(* char literals used across the model *)
Definition c_0 : cp := 48.   Definition c_dot : cp := 46.  Definition c_dash : cp := 45.
Definition c_plus : cp := 43. Definition c_under : cp := 95. Definition c_bang : cp := 33.
Definition c_v : cp := 118.  Definition c_V : cp := 86.
