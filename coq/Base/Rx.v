(* An executable regular-expression matcher over RelationAlgebra's [regex'], by Brzozowski
   derivatives with simplifying constructors, proved to decide [regex.lang] (so that the
   [ka]-decided language equalities of Proofs/RegexEquiv.v speak about what the model runs). *)
From Coq Require Import List.
From RelationAlgebra Require Import kleene regex ka_completeness lang kat_tac positives.
Import ListNotations.

Definition sdot (e f : regex') : regex' :=
  match e, f with
  | r_zer, _ => r_zer
  | _, r_zer => r_zer
  | r_one, _ => f
  | _, r_one => e
  | _, _ => r_dot e f
  end.

Definition spls (e f : regex') : regex' :=
  match e, f with
  | r_zer, _ => f
  | _, r_zer => e
  | _, _ => r_pls e f
  end.

Fixpoint sderiv (a : positive) (e : regex') : regex' :=
  match e with
  | r_zer | r_one => r_zer
  | r_pls e f => spls (sderiv a e) (sderiv a f)
  | r_dot e f => if epsilon e then spls (sdot (sderiv a e) f) (sderiv a f) else sdot (sderiv a e) f
  | r_str e => sdot (sderiv a e) (r_str e)
  | r_var b => if eqb_pos a b then r_one else r_zer
  end.

Fixpoint sderivs (w : list positive) (e : regex') : regex' :=
  match w with
  | [] => e
  | a :: w => sderivs w (sderiv a e)
  end.

Definition rx_accepts (e : regex') (w : list positive) : bool := epsilon (sderivs w e).

Lemma sdot_weq (e f : regex') : (sdot e f : regex') ≡ e ⋅ f.
Proof. destruct e, f; cbn [sdot]. all: ka. Qed.

Lemma spls_weq (e f : regex') : (spls e f : regex') ≡ e + f.
Proof. destruct e, f; cbn [spls]. all: ka. Qed.

Lemma sderiv_weq a (e : regex') : (sderiv a e : regex') ≡ deriv a e.
Proof.
  induction e as [| |e IHe f IHf|e IHe f IHf|e IHe|b]; cbn [sderiv deriv].
  - reflexivity.
  - reflexivity.
  - rewrite spls_weq, IHe, IHf. reflexivity.
  - destruct (epsilon e).
    + rewrite spls_weq, sdot_weq, IHe, IHf. unfold ofbool. ka.
    + rewrite sdot_weq, IHe. unfold ofbool. ka.
  - rewrite sdot_weq, IHe. reflexivity.
  - destruct (eqb_pos a b); reflexivity.
Qed.

Lemma sderivs_weq w : forall e : regex', (sderivs w e : regex') ≡ derivs w e.
Proof.
  induction w as [|a w IH]; intro e; cbn [sderivs derivs].
  - reflexivity.
  - rewrite IH. apply derivs_weq. apply sderiv_weq.
Qed.

Theorem rx_accepts_lang (e : regex') w : rx_accepts e w = true <-> regex.lang e w.
Proof.
  unfold rx_accepts, regex.lang. rewrite (epsilon_weq (sderivs_weq w e)).
  destruct (epsilon (derivs w e)); cbn; intuition congruence.
Qed.

Print Assumptions rx_accepts_lang.
