(* C15 - template variables agree with the rendered version; functions keep their contracts.
   Model: Model/Template.v (context, part accessors, custom functions, final trimming).  The Tera engine is not modelled. *)
From ZV Require Import Str Sanitize SanitizeSpec Zerv Render SemVer Pep440 Convert Hash Template IdentProofs TemplateProofs.

(* the context of any object exists (no panic) and is coherent: {{ semver }} / {{ pep440 }} are the plain renderings, the parts recompose
   exactly, and the docker form is the SemVer string with '+' replaced by '-' *)
Theorem c15_context_total : forall z, ctx_of_zerv z <> None.
Proof. exact ctx_total. Qed.

Theorem c15_context_coherent : forall z c, ctx_of_zerv z = Some c ->
  t_semver c = semver_print (semver_of_zerv z) /\
  (exists p, pep_of_zerv z = Some p /\ t_pep440 c = pep_print p) /\
  t_semver c = t_sv_base c ++ opt_with c_dash (t_sv_pre c) ++ opt_with c_plus (t_sv_build c) /\
  t_pep440 c = t_pep_base c ++ opt_plain (t_pep_pre c) ++ opt_with c_plus (t_pep_build c) /\
  t_sv_docker c = plus_to_dash (t_semver c).
Proof. exact ctx_coherent. Qed.

(* every identifier SemVer::from(Zerv) produces is a number or a non-empty ASCII-alphanumeric string without a leading-zero digit form,
   and optional parts are never Some(empty) *)
Theorem c15_identifiers_wellformed : forall z, part_wf (sv_pre (semver_of_zerv z)) /\ part_wf (sv_build (semver_of_zerv z)).
Proof. exact semver_of_zerv_wf. Qed.

(* function contracts, for all arguments *)
Theorem c15_hash_length : forall v n, (length (fn_hash v n) <= n)%nat.
Proof. exact fn_hash_length. Qed.
Theorem c15_hash_int_length : forall v n a, (length (fn_hash_int v n a) <= n)%nat.
Proof. exact fn_hash_int_length. Qed.
Theorem c15_hash_int_digits : forall v n, all_b is_ascii_digit (fn_hash_int v n false) = true.
Proof. exact fn_hash_int_digits. Qed.
Theorem c15_hash_int_no_leading_zero : forall v n, has_leading_zero (fn_hash_int v n false) = false.
Proof. exact fn_hash_int_no_leading_zero. Qed.
Theorem c15_prefix_length : forall v n, (length (fn_prefix v n) <= n)%nat.
Proof. exact fn_prefix_length. Qed.
Theorem c15_prefix_is_prefix : forall v n, exists t, v = fn_prefix v n ++ t.
Proof. exact fn_prefix_is_prefix. Qed.
Theorem c15_prefix_if : forall v p, fn_prefix_if v p = match v with [] => [] | _ => p ++ v end.
Proof. exact fn_prefix_if_spec. Qed.
Theorem c15_sanitize_contract : forall c lower keep mx v, is_ascii_alnum c = false ->
  contract c lower keep mx (fn_sanitize_custom v (Some [c]) (Some lower) (Some keep) mx).
Proof. exact fn_sanitize_custom_contract. Qed.

Check c15_context_coherent.

Print Assumptions c15_context_total.
Print Assumptions c15_context_coherent.
Print Assumptions c15_identifiers_wellformed.
Print Assumptions c15_hash_length.
Print Assumptions c15_hash_int_length.
Print Assumptions c15_hash_int_digits.
Print Assumptions c15_hash_int_no_leading_zero.
Print Assumptions c15_prefix_length.
Print Assumptions c15_prefix_is_prefix.
Print Assumptions c15_prefix_if.
Print Assumptions c15_sanitize_contract.
