(* C08 - the SemVer parser accepts exactly SemVer 2.0.0 (optionally preceded by v) and loses nothing.
   Model: Model/SemVer.v; the accepting regex [semver_src] is regenerated from
   src/version/semver/parser.rs on every run (Gen/RegexSrc.v), [semver_spec] is the SemVer BNF
   transcribed production by production (tools/spec/semver_bnf.rx) over the same atoms. *)
From ZV Require Import Str Dec Rx RegexSrc SemVer SemVerProofs RegexEquiv SemVerAccept.
From RelationAlgebra Require regex.

(* Tie 1, re-decided on every run: the source regex and the BNF denote the same language *)
Theorem c08_regex_is_bnf : forall w, regex.lang semver_src w <-> regex.lang semver_spec w.
Proof. exact semver_regex_lang. Qed.

(* the matcher the model runs decides that language *)
Theorem c08_matcher_decides : forall e w, rx_accepts e w = true <-> regex.lang e w.
Proof. exact rx_accepts_lang. Qed.

(* THE ACCEPTANCE THEOREM, for every string: the parser accepts s exactly when s is in the SemVer 2.0.0 BNF language (with the
   optional v) and its three core numbers fit u64.  [core_fits s] reads the three dot-separated numbers in front of the first '-' / '+'
   and asks that each parses as u64 - the only way a BNF member is refused (recorded as known finding numeric-field>=2^64: SemVer
   itself puts no bound on the numbers).  The hard direction - every BNF member is split into its fields successfully - is proved by
   inverting membership in a regex that ka proves to contain the BNF language (GrammarKa.sv_in_ka, re-decided on every run). *)
Theorem c08_accepts_iff : forall s,
  (exists v, semver_parse s = Some v) <-> regex.lang semver_spec (map semver_atom_of s) /\ core_fits s.
Proof. exact semver_accepts_iff. Qed.

(* the shape of every member of the BNF language, as used by the theorem: [v] X.Y.Z [-pre] [+build] with canonical numbers, non-empty
   identifiers over [0-9A-Za-z-], numeric pre-release identifiers without leading zeros *)
Theorem c08_member_shape : forall s, regex.lang semver_spec (map semver_atom_of s) ->
  exists V a b c pre build, s = V ++ (a ++ [c_dot] ++ b ++ [c_dot] ++ c) ++ opt_text c_dash pre ++ opt_text c_plus build /\
    (V = [] \/ V = [118%N]) /\ canonical_dec a = true /\ canonical_dec b = true /\ canonical_dec c = true /\
    (match pre with Some ps => ps <> [] /\ Forall pre_part_ok ps | None => True end) /\
    (match build with Some ps => ps <> [] /\ Forall build_part_ok ps | None => True end).
Proof. exact member_shape. Qed.

(* non-vacuity: a member that fits is accepted; a member whose major number is 2^64 is the refused case *)
Example c08_accepts_ex :
  rx_accepts semver_spec (map semver_atom_of [118;49;46;50;46;51;45;114;99;46;49;43;98;46;48;55]%N) = true /\
  semver_parse [118;49;46;50;46;51;45;114;99;46;49;43;98;46;48;55]%N <> None /\
  rx_accepts semver_spec (map semver_atom_of (print_dec 18446744073709551616 ++ [46;48;46;48])%N) = true /\
  semver_parse (print_dec 18446744073709551616 ++ [46;48;46;48])%N = None.
Proof. vm_compute. repeat split; discriminate. Qed.

(* lossless: printing the parsed version gives back the input without the v, character for character *)
Theorem c08_lossless : forall s v, semver_parse s = Some v -> semver_print v = strip_v s.
Proof. exact parse_lossless. Qed.

(* `zerv check --format semver` gives the same verdict and shows the printed form *)
Theorem c08_check_agrees : forall s,
  (semver_check s = None <-> semver_parse s = None) /\
  (forall p nz, semver_check s = Some (p, nz) -> p = strip_v s).
Proof.
  intros s. unfold semver_check. destruct (semver_parse s) as [v|] eqn:E; split.
  - split; discriminate.
  - intros p nz H. inversion H; subst. apply parse_lossless, E.
  - split; reflexivity.
  - intros p nz H. discriminate.
Qed.

(* what is printed is accepted again and parses to the SAME value, for every accepted string (so `zerv check` shows a form that zerv
   reads back unchanged, with or without the leading v) *)
Theorem c08_reparse : forall s v, semver_parse s = Some v -> semver_parse (semver_print v) = Some v.
Proof. exact semver_reparse. Qed.
Theorem c08_v_prefix_irrelevant : forall s v, semver_parse s = Some v -> semver_parse (strip_v s) = Some v.
Proof. exact parse_without_v. Qed.

Check c08_regex_is_bnf : forall w, regex.lang semver_src w <-> regex.lang semver_spec w.
Check c08_accepts_iff : forall s, (exists v, semver_parse s = Some v) <-> regex.lang semver_spec (map semver_atom_of s) /\ core_fits s.
Check c08_lossless : forall s v, semver_parse s = Some v -> semver_print v = strip_v s.

(* non-vacuity: "v1.2.3-rc.1+b.07" parses, prints without the v *)
Example c08_ex :
  option_map semver_print (semver_parse [118;49;46;50;46;51;45;114;99;46;49;43;98;46;48;55]%N)
  = Some [49;46;50;46;51;45;114;99;46;49;43;98;46;48;55]%N.
Proof. vm_compute. reflexivity. Qed.

Print Assumptions c08_regex_is_bnf.
Print Assumptions c08_matcher_decides.
Print Assumptions c08_accepts_iff.
Print Assumptions c08_member_shape.
Print Assumptions c08_lossless.
Print Assumptions c08_check_agrees.
Print Assumptions c08_reparse.
Print Assumptions c08_v_prefix_irrelevant.
