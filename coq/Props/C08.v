(* C08 - the SemVer parser accepts exactly SemVer 2.0.0 (optionally preceded by v) and loses nothing.
   Model: Model/SemVer.v; the accepting regex [semver_src] is regenerated from
   src/version/semver/parser.rs on every run (Gen/RegexSrc.v), [semver_spec] is the SemVer BNF
   transcribed production by production (tools/spec/semver_bnf.rx) over the same atoms. *)
From ZV Require Import Str Dec Rx RegexSrc SemVer SemVerProofs RegexEquiv.
From RelationAlgebra Require regex.

(* Tie 1, re-decided on every run: the source regex and the BNF denote the same language *)
Theorem c08_regex_is_bnf : forall w, regex.lang semver_src w <-> regex.lang semver_spec w.
Proof. exact semver_regex_lang. Qed.

(* the matcher the model runs decides that language *)
Theorem c08_matcher_decides : forall e w, rx_accepts e w = true <-> regex.lang e w.
Proof. exact rx_accepts_lang. Qed.

(* hence: the model parser accepts s exactly when s is in the BNF language and the field
   extraction succeeds.  PARTIAL: "extraction succeeds on every BNF member whose numeric
   identifiers are below 2^64" is not proved here; it is checked exhaustively on short strings and
   on every generated case by the correspondence run (oracle clause rejects-grammar-member). *)
Theorem c08_accepts_iff_partial : forall s,
  (exists v, semver_parse s = Some v) <->
  regex.lang semver_spec (map semver_atom_of s) /\ (exists v, semver_extract s = Some v).
Proof.
  intros s. unfold semver_parse. rewrite <- semver_regex_lang, <- rx_accepts_lang.
  destruct (rx_accepts semver_src (map semver_atom_of s)); split.
  - intros H. split; [reflexivity|exact H].
  - intros [_ H]. exact H.
  - intros [v H]. discriminate.
  - intros [H _]. discriminate.
Qed.

(* lossless: printing the parsed version gives back the input without the v, character for character *)
Theorem c08_lossless : forall s v, semver_parse s = Some v -> semver_print v = strip_v s.
Proof. exact parse_lossless. Qed.

(* `zerv check --format semver` gives the same verdict and shows the printed form *)
Theorem c08_check_agrees : forall s,
  (semver_check s = None <-> semver_parse s = None) /\
  (forall p nz, semver_check s = Some (p, nz) -> p = strip_v s).
Proof.
  intros s. unfold semver_check. destruct (semver_parse s) as [v|] eqn:E; split.
  - split; discriminate.
  - intros p nz H. inversion H; subst. apply parse_lossless, E.
  - split; reflexivity.
  - intros p nz H. discriminate.
Qed.

Check c08_regex_is_bnf : forall w, regex.lang semver_src w <-> regex.lang semver_spec w.
Check c08_lossless : forall s v, semver_parse s = Some v -> semver_print v = strip_v s.

(* non-vacuity: "v1.2.3-rc.1+b.07" parses, prints without the v *)
Example c08_ex :
  option_map semver_print (semver_parse [118;49;46;50;46;51;45;114;99;46;49;43;98;46;48;55]%N)
  = Some [49;46;50;46;51;45;114;99;46;49;43;98;46;48;55]%N.
Proof. vm_compute. reflexivity. Qed.

Print Assumptions c08_regex_is_bnf.
Print Assumptions c08_matcher_decides.
Print Assumptions c08_accepts_iff_partial.
Print Assumptions c08_lossless.
Print Assumptions c08_check_agrees.
