(* C06 - rendering places every schema component where the documented rules say.
   Model: Model/Render.v (from_zerv.rs x2, presets.rs).  Spec: Spec/Placement.v. *)
From ZV Require Import Str Zerv Render Placement RenderProofs PepPlacement.

(* SemVer: the processing loops compute exactly the placement rule - first three integer-valued core
   components as major.minor.patch (missing ones 0), every other core and extra-core contribution in
   schema order as pre-release identifiers, build components as build metadata - for EVERY schema and vars *)
Theorem c06_semver_refines : forall z, semver_of_zerv z = semver_placement z.
Proof. exact semver_refines_placement. Qed.

(* PEP 440: for every object whose schema passes the validation (each of epoch / pre-release / post / dev at most once in extra-core), the
   processing loops compute exactly the declarative placement rule of Spec/Placement.v: integer-valued (u32) core components are the
   release numbers in schema order ([0] if none); the four secondary variables set their field when they have a u32 value; every other
   component contributes its local segments - core, then extra-core, then build, in schema order; then normal form *)
Theorem c06_pep440_refines : forall z, schema_validate (z_schema z) = true -> pep_of_zerv z = Some (pep_placement z).
Proof.
  intros z H. apply pep_refines_placement. unfold schema_validate in H. rewrite !andb_true_iff in H. tauto.
Qed.

(* unset variables contribute nothing: deleting a component that resolves to nothing changes no SemVer rendering *)
Theorem c06_unset_contributes_nothing : forall z c pre post, unset c (z_vars z) ->
  let sc := z_schema z in
  (s_core sc = pre ++ c :: post -> semver_of_zerv z = semver_of_zerv (with_schema z {| s_core := pre ++ post; s_extra := s_extra sc; s_build := s_build sc; s_prec := s_prec sc |})) /\
  (s_extra sc = pre ++ c :: post -> semver_of_zerv z = semver_of_zerv (with_schema z {| s_core := s_core sc; s_extra := pre ++ post; s_build := s_build sc; s_prec := s_prec sc |})) /\
  (s_build sc = pre ++ c :: post -> semver_of_zerv z = semver_of_zerv (with_schema z {| s_core := s_core sc; s_extra := s_extra sc; s_build := pre ++ post; s_prec := s_prec sc |})).
Proof. exact semver_unset_contributes_nothing. Qed.

(* the smart presets (all 22 covered) choose their schema solely from dirty / distance>0 / pre-release / post *)
Theorem c06_tier_noninterference : forall p v1 v2,
  opt_true (v_dirty v1) = opt_true (v_dirty v2) -> opt_pos (v_distance v1) = opt_pos (v_distance v2) ->
  is_some (v_pre v1) = is_some (v_pre v2) -> is_some (v_post v1) = is_some (v_post v2) ->
  schema_with_zerv p v1 = schema_with_zerv p v2.
Proof. exact tier_noninterference. Qed.

Check c06_semver_refines : forall z, semver_of_zerv z = semver_placement z.

(* non-vacuity: an unset component exists (a variable that is None), and a concrete rendering *)
Definition ex_vars : vars :=
  {| v_major := Some 1; v_minor := None; v_patch := Some 3; v_epoch := None; v_pre := Some {| pr_label := Rc; pr_num := None |};
     v_post := None; v_dev := None; v_distance := None; v_dirty := None; v_bumped_branch := Some [102;47;120]; v_bumped_hash := None;
     v_bumped_ts := None; v_last_branch := None; v_last_hash := None; v_last_ts := None; v_last_tag := None; v_custom := JObj [] |}.
Example c06_ex_unset : unset (CVar Minor) ex_vars.
Proof. split; intros z; reflexivity. Qed.
Example c06_ex_render :
  SemVer.semver_print (semver_of_zerv {| z_schema := fixed_schema Standard TPre true; z_vars := ex_vars |})
  = [49;46;51;46;48;45;114;99;43;102;46;120]%N.    (* "1.3.0-rc+f.x" *)
Proof. vm_compute. reflexivity. Qed.

Print Assumptions c06_semver_refines.
Print Assumptions c06_unset_contributes_nothing.
Print Assumptions c06_tier_noninterference.
Print Assumptions c06_pep440_refines.

(* THE TIE OF THE MODEL'S PRESETS TO THE SOURCE: Gen/TablesSrc.v is regenerated from /repo by tools/tables2coq.py on every run *)
From ZV Require Import Render Cli TablesSrc TablesTie.
(* src/schema/presets.rs translated: every preset, on every variable state, stands for the schema the model uses; its name is read to the same preset;
   the schema passes the placement validation (the unwrap()s of the builders cannot fail) *)
Theorem c06_presets_as_in_source : forall p vs, src_schema_with_zerv p vs = Some (schema_with_zerv (model_of p) vs).
Proof. exact schema_with_zerv_as_source. Qed.
Theorem c06_preset_names_as_in_source :
  map (fun e => preset_of_name (fst e)) src_preset_names = map (fun e => Some (model_of (snd e))) src_preset_names /\ forall p, In p (map snd src_preset_names).
Proof. split; [exact preset_names_as_source|exact every_preset_named]. Qed.
Theorem c06_preset_schemas_valid : forall p vs s, src_schema_with_zerv p vs = Some s -> schema_validate s = true.
Proof. exact preset_schemas_valid. Qed.
Print Assumptions c06_presets_as_in_source.
Print Assumptions c06_preset_names_as_in_source.
Print Assumptions c06_preset_schemas_valid.
