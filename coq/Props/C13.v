(* C13 - zerv fails cleanly: no panic.  The pipeline models carry an explicit panic outcome ([OPanic]) at every place where the
   Rust code contains an `expect` / `unwrap` / slice that the data could in principle violate; these theorems show it unreachable,
   for every argument record, stdin object, clock value and version string.  The models are tied to the code by the correspondence
   runs (which execute the real entry points under catch_unwind); what is outside the models (clap, tera, ron, logging, git
   process handling) is decided by process-level runs, see DESIGN.md. *)
From ZV Require Import Str Zerv Render Convert Bump Cli Flow NoPanicProofs ConvertProofs NoPanicCli.

Theorem c13_render_no_panic : forall inf outf prefix s, render_cmd inf outf prefix s <> OPanic.
Proof. exact render_no_panic. Qed.

Theorem c13_version_no_panic : forall a stdin now, version_output a stdin now <> OPanic.
Proof. exact version_no_panic. Qed.

Theorem c13_flow_no_panic : forall f stdin now, flow_output f stdin now <> OPanic.
Proof. exact flow_no_panic. Qed.

(* the two conversions that own the panic sites *)
Theorem c13_pep_conversion_total : forall z, pep_of_zerv z <> None.
Proof. exact pep_of_zerv_total. Qed.

Theorem c13_semver_to_zerv_total : forall v, zerv_of_semver v <> None.
Proof. exact zerv_of_semver_total. Qed.

Check c13_version_no_panic : forall a stdin now, version_output a stdin now <> OPanic.

(* non-vacuity: the input that used to panic (`1.0.0-epoch.post.epoch`, SemVer -> Zerv) now renders *)
Example c13_ex : exists t, render_cmd FSemver FSemver [] [49;46;48;46;48;45;101;112;111;99;104;46;112;111;115;116;46;101;112;111;99;104]%N = OOk t.
Proof. eexists. vm_compute. reflexivity. Qed.

Print Assumptions c13_render_no_panic.
Print Assumptions c13_version_no_panic.
Print Assumptions c13_flow_no_panic.
Print Assumptions c13_pep_conversion_total.
Print Assumptions c13_semver_to_zerv_total.
