(* C03 - flow versions sort consistently with history.  The comparators are the independent ones the property demands:
   sv_lt (SemVer section 11, Spec/SemVerSpec.v) and pep_std_cmp (the public PEP 440 order, Spec/Pep440StdOrder.v). *)
From Coq Require Import Lia.
From ZV Require Import Str SemVer SemVerSpec Pep440 Pep440Spec Pep440StdOrder OrderFacts Pep440Order Zerv Render Bump PepRoundTrip SemVerRoundTrip FlowLaw FlowOrder Cli Flow Convert Findings.
Open Scope N_scope.

Definition sv (x y z : N) (pre : option (list ident)) : semver :=
  {| sv_major := x; sv_minor := y; sv_patch := z; sv_pre := pre; sv_build := None |}.

(* why every not-at-tag flow version lies strictly between the tag and the next patch: it is a PRE-RELEASE of X.Y.(Z+1) *)
Theorem c03_between_semver : forall x y z pre b1 b2,
  sv_lt (sv x y z None) {| sv_major := x; sv_minor := y; sv_patch := z + 1; sv_pre := Some pre; sv_build := b1 |} /\
  sv_lt {| sv_major := x; sv_minor := y; sv_patch := z + 1; sv_pre := Some pre; sv_build := b2 |} (sv x y (z + 1) None).
Proof.
  intros. split.
  - apply sv_patch_lt; cbn; [reflexivity|reflexivity|lia].
  - eapply sv_pre_rel; cbn; reflexivity.
Qed.

(* commit post-mode: same label and number, larger post number => strictly greater (identifiers lbl.N.post.P...) *)
Theorem c03_post_monotone_semver : forall x y z lbl n p1 p2 rest1 rest2 b1 b2, p1 < p2 ->
  sv_lt {| sv_major := x; sv_minor := y; sv_patch := z; sv_pre := Some (IStr lbl :: IUInt n :: IStr [112;111;115;116] :: IUInt p1 :: rest1); sv_build := b1 |}
        {| sv_major := x; sv_minor := y; sv_patch := z; sv_pre := Some (IStr lbl :: IUInt n :: IStr [112;111;115;116] :: IUInt p2 :: rest2); sv_build := b2 |}.
Proof.
  intros. eapply sv_pre_ids; cbn; try reflexivity.
  apply ids_tl, ids_tl, ids_tl, ids_hd, id_num. assumption.
Qed.

(* PEP 440, public order: a pre-release (with any post / dev) of X.Y.(Z+1) lies strictly between X.Y.Z and X.Y.(Z+1) *)
Definition pp (rel : list N) (pre : option (label * N)) (post dev : option N) : pep :=
  {| p_epoch := 0; p_release := rel; p_pre_label := option_map fst pre; p_pre_num := option_map snd pre;
     p_post_label := match post with Some _ => true | None => false end; p_post_num := post;
     p_dev_label := match dev with Some _ => true | None => false end; p_dev_num := dev; p_local := None |}.

Theorem c03_between_pep440 : forall x y z l n post dev,
  pep_std_cmp (pp [x; y; z] None None None) (pp [x; y; z + 1] (Some (l, n)) post dev) = Lt /\
  pep_std_cmp (pp [x; y; z + 1] (Some (l, n)) post dev) (pp [x; y; z + 1] None None None) = Lt.
Proof.
  intros. unfold pep_std_cmp, pep_std_key, pair_cmp, then_with', std_pre, pp. cbn [fst snd p_epoch p_release p_pre_label p_pre_num p_post_label p_dev_label option_map].
  rewrite !N.compare_refl.
  assert (H1 : lex N.compare (strip_zeros [x; y; z]) (strip_zeros [x; y; z + 1]) = Lt).
  { cbn [strip_zeros]. destruct (N.eqb_spec (z + 1) 0); [lia|].
    destruct (N.eqb_spec z 0) as [->|Hz].
    - destruct (N.eqb_spec y 0) as [->|Hy].
      + destruct (N.eqb_spec x 0) as [->|Hx]; cbn; rewrite ?N.compare_refl; reflexivity.
      + cbn. rewrite !N.compare_refl. reflexivity.
    - cbn. rewrite !N.compare_refl. assert (E : N.compare z (z + 1) = Lt) by (apply N.compare_lt_iff; lia). rewrite E. reflexivity. }
  rewrite H1. split; [reflexivity|].
  rewrite (gc_refl _ (lex_good N.compare N_good)). reflexivity.
Qed.

(* commit post-mode, PEP 440: same pre-release, larger post number => strictly greater *)
Theorem c03_post_monotone_pep440 : forall rel l n p1 p2 d1 d2, p1 < p2 ->
  pep_std_cmp (pp rel (Some (l, n)) (Some p1) d1) (pp rel (Some (l, n)) (Some p2) d2) = Lt.
Proof.
  intros. unfold pep_std_cmp, pep_std_key, pair_cmp, then_with', std_pre, pp. cbn [fst snd p_epoch p_release p_pre_label p_pre_num p_post_label p_post_num p_dev_label option_map opt_low num0].
  rewrite !N.compare_refl, (gc_refl _ (lex_good N.compare N_good)).
  assert (E : N.compare p1 p2 = Lt) by (apply N.compare_lt_iff; assumption). rewrite E. reflexivity.
Qed.

(* COMPOSITION with the rendering and with the flow law (C04): an object whose version variables are (X, Y, Z+1) with a pre-release set,
   rendered through a schema with the standard core that shows the pre-release variable, lies strictly between X.Y.Z and X.Y.(Z+1) in
   SemVer precedence - for any such schema, any other variables, any build metadata *)
Theorem c03_flow_version_between : forall z x y zz p,
  s_core (z_schema z) = standard_core -> In (CVar PreRelease) (s_extra (z_schema z)) ->
  v_major (z_vars z) = Some x -> v_minor (z_vars z) = Some y -> v_patch (z_vars z) = Some (zz + 1) -> v_pre (z_vars z) = Some p ->
  u64 x -> u64 y -> u64 (zz + 1) ->
  sv_lt {| sv_major := x; sv_minor := y; sv_patch := zz; sv_pre := None; sv_build := None |} (semver_of_zerv z) /\
  sv_lt (semver_of_zerv z) {| sv_major := x; sv_minor := y; sv_patch := zz + 1; sv_pre := None; sv_build := None |}.
Proof. exact flow_version_between. Qed.

(* ... and off a final release X.Y.Z the flow law yields exactly such variables: patch Z+1 and a pre-release *)
Theorem c03_law_off_final_release : forall vs opost lab n pamt dev x y zz,
  v_major vs = Some x -> v_minor vs = Some y -> v_patch vs = Some zz -> v_pre vs = None ->
  let vs' := law_vars vs opost lab n pamt dev in
  v_major vs' = Some x /\ v_minor vs' = Some y /\ v_patch vs' = Some (zz + 1) /\ v_pre vs' = Some {| pr_label := lab; pr_num := Some n |}.
Proof. exact law_vars_off_final. Qed.

(* the PEP 440 side: ANY PEP 440 value with release X.Y.(Z+1) and a pre-release label - whatever its post, dev and local parts - lies
   strictly between the final releases X.Y.Z and X.Y.(Z+1) of the same epoch in the public PEP 440 order; and an object with variables
   (X, Y, Z+1) + pre-release rendered through a validated standard-core schema showing the pre-release variable is such a value *)
Theorem c03_pep440_prerelease_between : forall p e x y z l,
  p_epoch p = e -> p_release p = [x; y; z + 1] -> p_pre_label p = Some l ->
  pep_std_cmp (pep_final e [x; y; z]) p = Lt /\ pep_std_cmp p (pep_final e [x; y; z + 1]) = Lt.
Proof. exact pep_prerelease_between. Qed.

Theorem c03_flow_version_between_pep440 : forall z x y zz lab n e,
  schema_validate (z_schema z) = true -> s_core (z_schema z) = standard_core -> In (CVar PreRelease) (s_extra (z_schema z)) ->
  v_major (z_vars z) = Some x -> v_minor (z_vars z) = Some y -> v_patch (z_vars z) = Some (zz + 1) ->
  v_pre (z_vars z) = Some {| pr_label := lab; pr_num := Some n |} -> u32 x -> u32 y -> u32 (zz + 1) -> u32 n ->
  exists p, pep_of_zerv z = Some p /\ (p_epoch p = e ->
    pep_std_cmp (pep_final e [x; y; zz]) p = Lt /\ pep_std_cmp p (pep_final e [x; y; zz + 1]) = Lt).
Proof. exact flow_version_between_pep. Qed.

(* commit post-mode monotonicity, composed with the rendering: two objects with the same schema (standard core; extra-core one of the two
   standard lists that print the post number), the same X.Y.W, label and number, no epoch, and post numbers p1 < p2 - whatever their dev
   numbers, context and build - render to SemVer values with the first strictly smaller.  (By the flow law, in commit mode the post number
   is the base post plus the distance, so more commits after the same tag mean a larger post number.) *)
Theorem c03_post_monotone_rendering : forall z1 z2 x y w lab n p1 p2,
  z_schema z1 = z_schema z2 -> s_core (z_schema z1) = standard_core ->
  (s_extra (z_schema z1) = prerelease_post_dev_extra \/ s_extra (z_schema z1) = prerelease_post_extra) ->
  (forall z, z = z1 \/ z = z2 -> v_major (z_vars z) = Some x /\ v_minor (z_vars z) = Some y /\ v_patch (z_vars z) = Some w /\ v_epoch (z_vars z) = None /\
                                v_pre (z_vars z) = Some {| pr_label := lab; pr_num := Some n |} /\ opt_u64 (v_dev (z_vars z))) ->
  v_post (z_vars z1) = Some p1 -> v_post (z_vars z2) = Some p2 -> p1 < p2 ->
  u64 x -> u64 y -> u64 w -> u64 n -> u64 p1 -> u64 p2 ->
  sv_lt (semver_of_zerv z1) (semver_of_zerv z2).
Proof. exact post_monotone_rendering. Qed.

(* KNOWN FINDING of this property, as the model exhibits it (the check prints KNOWN-FINDING for the class; see known_findings.json) *)
Example c03_finding_c03_base_preset :
flow_output (w_flow [115;116;97;110;100;97;114;100;45;98;97;115;101]%N 3 5 [109;97;105;110]%N OutSemver) None 1700000000 = OOk [49;46;50;46;52]%N /\
  flow_output (w_flow [115;116;97;110;100;97;114;100;45;98;97;115;101;45;112;114;101;114;101;108;101;97;115;101]%N 1 5 [109;97;105;110]%N OutSemver) None 1700000000
  = flow_output (w_flow [115;116;97;110;100;97;114;100;45;98;97;115;101;45;112;114;101;114;101;108;101;97;115;101]%N 3 5 [109;97;105;110]%N OutSemver) None 1700000000.
Proof. exact finding_c03_base_preset. Qed.

Print Assumptions c03_between_semver.
Print Assumptions c03_post_monotone_semver.
Print Assumptions c03_between_pep440.
Print Assumptions c03_post_monotone_pep440.
Print Assumptions c03_flow_version_between.
Print Assumptions c03_law_off_final_release.
Print Assumptions c03_pep440_prerelease_between.
Print Assumptions c03_flow_version_between_pep440.
Print Assumptions c03_post_monotone_rendering.

(* THE TIE OF THE MODEL'S CONSTANT TABLES TO THE SOURCE: Gen/TablesSrc.v is regenerated from /repo by tools/tables2coq.py on every run *)
From ZV Require Import Timestamp Render Convert TablesSrc TablesTie.
Theorem c03_preset_component_tables_as_in_source :
  standard_core = src_components_standard_core /\ calver_core = src_components_calver_core /\ epoch_extra = src_components_epoch_extra_core /\
  prerelease_extra = src_components_prerelease_core /\ prerelease_post_extra = src_components_prerelease_post_core /\
  prerelease_post_dev_extra = src_components_prerelease_post_dev_core /\ build_context = src_components_build_context.
Proof. exact component_tables_as_source. Qed.
Print Assumptions c03_preset_component_tables_as_in_source.

(* src/schema/presets.rs translated: every preset, on every variable state, stands for the schema the model uses; its name is read to the same preset;
   the schema passes the placement validation (the unwrap()s of the builders cannot fail) *)
Theorem c03_presets_as_in_source : forall p vs, src_schema_with_zerv p vs = Some (schema_with_zerv (model_of p) vs).
Proof. exact schema_with_zerv_as_source. Qed.
Theorem c03_preset_names_as_in_source :
  map (fun e => preset_of_name (fst e)) src_preset_names = map (fun e => Some (model_of (snd e))) src_preset_names /\ forall p, In p (map snd src_preset_names).
Proof. split; [exact preset_names_as_source|exact every_preset_named]. Qed.
Theorem c03_preset_schemas_valid : forall p vs s, src_schema_with_zerv p vs = Some s -> schema_validate s = true.
Proof. exact preset_schemas_valid. Qed.
Print Assumptions c03_presets_as_in_source.
Print Assumptions c03_preset_names_as_in_source.
Print Assumptions c03_preset_schemas_valid.
