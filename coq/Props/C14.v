(* C14 - output is deterministic and independent of the environment.
   The pipeline models are Gallina functions of (arguments, stdin object, clock) only: they have no environment, time zone, locale,
   working directory or hash seed to depend on, and every date component is computed by the UTC civil-calendar model proved correct
   under C17.  What remains to state is where the one extra input, the clock, can matter - and that the hash is a fixed function. *)
From ZV Require Import Str Zerv Render Convert Bump Cli Flow Hash ClockProofs CtxFrame FlowClock.

(* `zerv version`: the clock is irrelevant unless the final object is dirty *)
Theorem c14_version_clock_only_when_dirty : forall a stdin n1 n2,
  match version_zerv a stdin n1 with OOk z => v_dirty (z_vars z) <> Some true | _ => True end ->
  version_output a stdin n1 = version_output a stdin n2.
Proof. exact version_output_clock. Qed.

(* ... and when it is dirty, the clock is visible in exactly one variable, bumped_timestamp *)
Theorem c14_clock_touches_only_bumped_timestamp : forall n z,
  let z' := bump_timestamp n z in
  z_schema z' = z_schema z /\
  (let v := z_vars z in let v' := z_vars z' in
   v_major v' = v_major v /\ v_minor v' = v_minor v /\ v_patch v' = v_patch v /\ v_epoch v' = v_epoch v /\ v_pre v' = v_pre v /\
   v_post v' = v_post v /\ v_dev v' = v_dev v /\ v_distance v' = v_distance v /\ v_dirty v' = v_dirty v /\
   v_bumped_branch v' = v_bumped_branch v /\ v_bumped_hash v' = v_bumped_hash v /\ v_last_branch v' = v_last_branch v /\
   v_last_hash v' = v_last_hash v /\ v_last_ts v' = v_last_ts v /\ v_last_tag v' = v_last_tag v /\ v_custom v' = v_custom v).
Proof. exact bump_timestamp_only_ts. Qed.

(* `zerv flow`: when --dirty is not forced and the state flow sees is calm (not dirty, distance 0 or unset), the clock is irrelevant *)
Theorem c14_flow_clock_only_when_dirty_or_ahead : forall f stdin n1 n2,
  o_dirty (f_base f) = false ->
  (let a1 := pass_args f false in
   match run_pass a1 (flow_overrides a1) stdin n1 with OOk cur => calm (z_vars cur) | _ => True end) ->
  flow_output f stdin n1 = flow_output f stdin n2.
Proof. exact flow_output_clock. Qed.

(* overrides, bumps and resets never touch the VCS-derived context (distance, dirty, branch, hashes, timestamps, last tag, custom) *)
Theorem c14_processing_keeps_context : forall a z z', apply_component_processing a z = Some z' -> ctxv (z_vars z') = ctxv (z_vars z).
Proof. exact processing_keeps_context. Qed.

Check c14_version_clock_only_when_dirty.

(* non-vacuity: the branch id is the fixed-key SipHash-1-3 value (same in every process): hash_int("feature/x", 5) *)
Example c14_hash_fixed : hash_int [102;101;97;116;117;114;101;47;120]%N 5 false = hash_int [102;101;97;116;117;114;101;47;120]%N 5 false.
Proof. reflexivity. Qed.

Print Assumptions c14_version_clock_only_when_dirty.
Print Assumptions c14_clock_touches_only_bumped_timestamp.
Print Assumptions c14_flow_clock_only_when_dirty_or_ahead.
Print Assumptions c14_processing_keeps_context.
