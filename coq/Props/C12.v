(* C12 - Zerv RON is a lossless interchange format and invalid objects are refused.
   Proved here (for all schemas / arguments / stdin objects): the validation the model runs is exactly the declarative
   placement rules, and every object the version and flow pipelines can emit satisfies them.
   The losslessness half (print / parse round trip through the `ron` crate and serde derive) is library behaviour that is
   modelled only on the printing side (Model/Ron.v); it is decided by differential execution (see DESIGN.md). *)
From ZV Require Import Str Zerv SchemaSpec Bump Cli Flow Convert SchemaProofs PipeIdentity.

(* schema_validate (src/version/zerv/schema/validation.rs) accepts exactly the placement rules of the property *)
Theorem c12_validation_is_placement : forall s, schema_validate s = true <-> Placement s.
Proof. exact validate_iff_placement. Qed.

(* `zerv version`: whatever the source, overrides, bumps and schema, an emitted object satisfies the rules *)
Theorem c12_version_emits_valid : forall a stdin now z, version_zerv a stdin now = OOk z -> Placement (z_schema z).
Proof. intros a stdin now z H. apply validate_iff_placement. exact (version_emits_valid a stdin now z H). Qed.

(* `zerv flow` likewise *)
Theorem c12_flow_emits_valid : forall f stdin now z, flow_zerv f stdin now = OOk z -> Placement (z_schema z).
Proof. intros f stdin now z H. apply validate_iff_placement. exact (flow_emits_valid f stdin now z H). Qed.

(* component processing (schema-level overrides and bumps) cannot leave the valid schemas *)
Theorem c12_processing_preserves : forall a z z',
  Placement (z_schema z) -> apply_component_processing a z = Some z' -> Placement (z_schema z').
Proof. intros a z z' H E. apply validate_iff_placement. eapply apply_processing_valid; [apply validate_iff_placement, H|exact E]. Qed.

Check c12_validation_is_placement : forall s, schema_validate s = true <-> Placement s.
Check c12_version_emits_valid : forall a stdin now z, version_zerv a stdin now = OOk z -> Placement (z_schema z).
Check c12_flow_emits_valid : forall f stdin now z, flow_zerv f stdin now = OOk z -> Placement (z_schema z).

(* non-vacuity: a standard-like schema satisfies the rules, [major; patch; minor] and an empty schema do not *)
Example c12_ex_valid : schema_validate {| s_core := [CVar Major; CVar Minor; CVar Patch]; s_extra := [CVar Epoch; CVar PreRelease; CVar Post; CVar Dev];
                                          s_build := [CVar BumpedBranch; CVar Distance]; s_prec := default_prec |} = true.
Proof. vm_compute. reflexivity. Qed.
Example c12_ex_misordered : schema_validate {| s_core := [CVar Major; CVar Patch; CVar Minor]; s_extra := []; s_build := []; s_prec := [] |} = false.
Proof. vm_compute. reflexivity. Qed.
Example c12_ex_empty : schema_validate {| s_core := []; s_extra := []; s_build := []; s_prec := default_prec |} = false.
Proof. vm_compute. reflexivity. Qed.
Example c12_ex_dup : schema_validate {| s_core := [CVar Major]; s_extra := [CVar Post; CVar Post]; s_build := []; s_prec := [] |} = false.
Proof. vm_compute. reflexivity. Qed.

(* THE PIPE: the object emitted by any `zerv version` / `zerv flow` run, fed to `zerv version --source stdin` with no other argument, comes
   out UNCHANGED (same clock value; with another clock value only bumped_timestamp of a dirty object moves, C14) - so the zerv document is
   re-emitted identically and the semver / pep440 rendering of the second process is the rendering the first one would have printed.
   (What travels between the two processes is RON text: printer and parser of the ron crate, decided by the correspondence runs.) *)
Theorem c12_version_pipe_identity : forall a stdin now z f, version_zerv a stdin now = OOk z -> version_zerv (plain_stdin f) (Some (Some z)) now = OOk z.
Proof. exact version_pipe_identity. Qed.
Theorem c12_flow_pipe_identity : forall fa stdin now z f, flow_zerv fa stdin now = OOk z -> version_zerv (plain_stdin f) (Some (Some z)) now = OOk z.
Proof. exact flow_pipe_identity. Qed.
Theorem c12_pipe_semver : forall a stdin now z, version_zerv a stdin now = OOk z ->
  version_output (plain_stdin OutSemver) (Some (Some z)) now = OOk (semver_print (semver_of_zerv z)).
Proof. exact version_pipe_semver. Qed.
Theorem c12_pipe_pep440 : forall a stdin now z p, version_zerv a stdin now = OOk z -> pep_of_zerv z = Some p ->
  version_output (plain_stdin OutPep440) (Some (Some z)) now = OOk (pep_print p).
Proof. exact version_pipe_pep440. Qed.
Theorem c12_pipe_reemits : forall a stdin now z, version_zerv a stdin now = OOk z ->
  version_output (plain_stdin OutZerv) (Some (Some z)) now = OOk (zerv_ron z).
Proof. exact version_pipe_reemits. Qed.

(* REFUSAL: an object whose schema violates the placement rules is never rendered when it is the schema in effect; a stdin document that
   does not deserialize to a Zerv object is refused *)
Theorem c12_invalid_schema_refused : forall a z now t, g_schema a = None -> g_schema_ron a = None -> schema_validate (z_schema z) = false ->
  (g_source a = Some SrcStdin \/ g_source a = None) -> version_output a (Some (Some z)) now <> OOk t.
Proof. exact invalid_schema_refused. Qed.
Theorem c12_not_a_document_refused : forall a now t, (g_source a = Some SrcStdin \/ g_source a = None) -> version_output a (Some None) now <> OOk t.
Proof. exact not_a_document_refused. Qed.

Print Assumptions c12_validation_is_placement.
Print Assumptions c12_version_emits_valid.
Print Assumptions c12_flow_emits_valid.
Print Assumptions c12_processing_preserves.
Print Assumptions c12_version_pipe_identity.
Print Assumptions c12_flow_pipe_identity.
Print Assumptions c12_pipe_semver.
Print Assumptions c12_pipe_pep440.
Print Assumptions c12_pipe_reemits.
Print Assumptions c12_invalid_schema_refused.
Print Assumptions c12_not_a_document_refused.

(* THE TIE OF THE MODEL'S CONSTANT TABLES TO THE SOURCE: Gen/TablesSrc.v is regenerated from /repo by tools/tables2coq.py on every run *)
From ZV Require Import Timestamp Render Convert TablesSrc TablesTie.
Theorem c12_timestamp_patterns_as_in_source : forall p,
  is_valid_timestamp_pattern p = (existsb (str_eqb p) src_valid_timestamp_patterns || match p with c :: _ => N.eqb c 37 | [] => false end)%bool.
Proof. intros p. unfold is_valid_timestamp_pattern. rewrite valid_patterns_as_source. reflexivity. Qed.
Print Assumptions c12_timestamp_patterns_as_in_source.

(* STRING VALUES SURVIVE THE TEXT: the reader of RON string literals (Model/RonRead.v: ron's parse_escape as a state machine, compared with the
   implementation on valid and invalid literals of every kind) applied to the literal the writer prints (Model/Ron.v ron_string, compared with the
   implementation on every emitted object) returns the string - for EVERY string of Unicode scalar values: quotes, backslashes, newlines, control
   characters and the \u{...} escapes of non-printable characters included; different strings have different literals *)
From ZV Require Import Ron RonRead RonStringRound.
Theorem c12_string_values_survive : forall s rest, forallb is_scalar s = true -> ron_read_string (ron_string s ++ rest) = Some (s, rest).
Proof. exact ron_string_roundtrip. Qed.
Theorem c12_string_document_roundtrip : forall s, forallb is_scalar s = true -> ron_string_document (ron_string s) = Some s.
Proof. exact ron_string_document_roundtrip. Qed.
Theorem c12_string_literals_injective : forall s1 s2, forallb is_scalar s1 = true -> forallb is_scalar s2 = true -> ron_string s1 = ron_string s2 -> s1 = s2.
Proof. exact ron_string_injective. Qed.
(* non-vacuity:  a"b\<LF><U+0301><U+1F600>  is printed as  "a\"b\\\n\u{301}<U+1F600>"  and read back *)
Example c12_ex_string : ron_string [97;34;98;92;10;769;128512]%N = [34;97;92;34;98;92;92;92;110;92;117;123;51;48;49;125;128512;34]%N /\
  ron_string_document (ron_string [97;34;98;92;10;769;128512]%N) = Some [97;34;98;92;10;769;128512]%N.
Proof. vm_compute. split; reflexivity. Qed.
Print Assumptions c12_string_values_survive.
Print Assumptions c12_string_document_roundtrip.
Print Assumptions c12_string_literals_injective.
