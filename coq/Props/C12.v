(* C12 - Zerv RON is a lossless interchange format and invalid objects are refused.
   Proved here (for all schemas / arguments / stdin objects): the validation the model runs is exactly the declarative
   placement rules, and every object the version and flow pipelines can emit satisfies them.
   The losslessness half (print / parse round trip through the `ron` crate and serde derive) is library behaviour that is
   modelled only on the printing side (Model/Ron.v); it is decided by differential execution (see DESIGN.md). *)
From ZV Require Import Str Zerv SchemaSpec Bump Cli Flow Convert SchemaProofs.

(* schema_validate (src/version/zerv/schema/validation.rs) accepts exactly the placement rules of the property *)
Theorem c12_validation_is_placement : forall s, schema_validate s = true <-> Placement s.
Proof. exact validate_iff_placement. Qed.

(* `zerv version`: whatever the source, overrides, bumps and schema, an emitted object satisfies the rules *)
Theorem c12_version_emits_valid : forall a stdin now z, version_zerv a stdin now = OOk z -> Placement (z_schema z).
Proof. intros a stdin now z H. apply validate_iff_placement. exact (version_emits_valid a stdin now z H). Qed.

(* `zerv flow` likewise *)
Theorem c12_flow_emits_valid : forall f stdin now z, flow_zerv f stdin now = OOk z -> Placement (z_schema z).
Proof. intros f stdin now z H. apply validate_iff_placement. exact (flow_emits_valid f stdin now z H). Qed.

(* component processing (schema-level overrides and bumps) cannot leave the valid schemas *)
Theorem c12_processing_preserves : forall a z z',
  Placement (z_schema z) -> apply_component_processing a z = Some z' -> Placement (z_schema z').
Proof. intros a z z' H E. apply validate_iff_placement. eapply apply_processing_valid; [apply validate_iff_placement, H|exact E]. Qed.

Check c12_validation_is_placement : forall s, schema_validate s = true <-> Placement s.
Check c12_version_emits_valid : forall a stdin now z, version_zerv a stdin now = OOk z -> Placement (z_schema z).
Check c12_flow_emits_valid : forall f stdin now z, flow_zerv f stdin now = OOk z -> Placement (z_schema z).

(* non-vacuity: a standard-like schema satisfies the rules, [major; patch; minor] and an empty schema do not *)
Example c12_ex_valid : schema_validate {| s_core := [CVar Major; CVar Minor; CVar Patch]; s_extra := [CVar Epoch; CVar PreRelease; CVar Post; CVar Dev];
                                          s_build := [CVar BumpedBranch; CVar Distance]; s_prec := default_prec |} = true.
Proof. vm_compute. reflexivity. Qed.
Example c12_ex_misordered : schema_validate {| s_core := [CVar Major; CVar Patch; CVar Minor]; s_extra := []; s_build := []; s_prec := [] |} = false.
Proof. vm_compute. reflexivity. Qed.
Example c12_ex_empty : schema_validate {| s_core := []; s_extra := []; s_build := []; s_prec := default_prec |} = false.
Proof. vm_compute. reflexivity. Qed.
Example c12_ex_dup : schema_validate {| s_core := [CVar Major]; s_extra := [CVar Post; CVar Post]; s_build := []; s_prec := [] |} = false.
Proof. vm_compute. reflexivity. Qed.

Print Assumptions c12_validation_is_placement.
Print Assumptions c12_version_emits_valid.
Print Assumptions c12_flow_emits_valid.
Print Assumptions c12_processing_preserves.
