(* C16 - the sanitiser contract.  Statements only; every proof is `exact <lemma>`.
   Model: Model/Sanitize.v (src/utils/sanitize.rs).  Spec: Spec/SanitizeSpec.v. *)
From ZV Require Import Str Sanitize SanitizeSpec SanitizeProofs.

(* For any input and any single non-alphanumeric separator character c, without max_length the
   result is exactly the maximal ASCII-alphanumeric runs of the (optionally ASCII-lower-cased)
   input, each all-digit run stripped of leading zeros unless zeros are kept, joined by c. *)
Theorem c16_shape : forall c lower keep s, is_ascii_alnum c = false ->
  sanitize (custom_str (Some [c]) lower keep None) s = spec_sanitize c lower keep s.
Proof.
  intros c lower keep s Hc. unfold sanitize, spec_sanitize. cbn [sz_uint custom_str].
  rewrite (shape_nomax c Hc). unfold lowered, f_of.
  destruct keep; [reflexivity|]. f_equal. apply List.map_ext. intros g. apply strip_is_fix0.
Qed.

(* With any max_length the result satisfies the whole contract: non-empty ASCII-alphanumeric
   segments joined by single separators (hence no other character and no leading / trailing /
   doubled separator), no leading-zero digit segment unless kept, lower case if asked,
   at most max_length characters. *)
Theorem c16_contract : forall c lower keep mx s, is_ascii_alnum c = false ->
  contract c lower keep mx (sanitize (custom_str (Some [c]) lower keep mx) s).
Proof. intros c lower keep mx s Hc. exact (contract_holds c Hc lower keep mx s). Qed.

(* ... and its segments are a truncation of the (zero-stripped) runs of the input: the first k runs,
   possibly followed by a non-empty prefix of run k+1 (zero-stripped again when zeros are not kept). *)
Theorem c16_truncation : forall c lower keep mx s, is_ascii_alnum c = false ->
  exists R, trunc (map (f_of keep) (ascii_runs (lowered lower s))) R /\
    sanitize (custom_str (Some [c]) lower keep mx) s = intercalate [c] (map (f2_of keep mx) R).
Proof.
  intros c lower keep mx s Hc. destruct (shape_general c Hc lower keep mx s) as [R [H1 [_ [H2 _]]]].
  exists R. split; [exact H1|exact H2].
Qed.

(* Every string meeting the contract is a fixed point; hence sanitising is idempotent. *)
Theorem c16_fixed : forall c lower keep mx r, is_ascii_alnum c = false ->
  contract c lower keep mx r -> sanitize (custom_str (Some [c]) lower keep mx) r = r.
Proof. intros c lower keep mx r Hc. exact (contract_fixed c Hc lower keep mx r). Qed.

Theorem c16_idempotent : forall c lower keep mx s, is_ascii_alnum c = false ->
  let z := custom_str (Some [c]) lower keep mx in sanitize z (sanitize z s) = sanitize z s.
Proof. intros c lower keep mx s Hc. exact (idempotent c Hc lower keep mx s). Qed.

(* The integer sanitiser: canonical digits of a non-empty all-ASCII-digit input (after Rust's trim), else "". *)
Theorem c16_uint : forall s, sanitize uint_sanitizer s = uint_spec (trim_ws s).
Proof. exact uint_correct. Qed.

Theorem c16_uint_no_edge_ws : forall s,
  match s with x :: _ => is_whitespace x = false | [] => True end ->
  (forall x t, s = t ++ [x] -> is_whitespace x = false) ->
  sanitize uint_sanitizer s = uint_spec s.
Proof. intros s H1 H2. rewrite uint_correct, (trim_ws_id s H1 H2). reflexivity. Qed.

(* The executable oracle run on implementation outputs decides exactly the contract. *)
Theorem c16_oracle_sound : forall c lower keep mx r,
  contract_b c lower keep mx r = true -> contract c lower keep mx r.
Proof. exact contract_b_sound. Qed.

Theorem c16_oracle_complete : forall c lower keep mx r, is_ascii_alnum c = false ->
  contract c lower keep mx r -> contract_b c lower keep mx r = true.
Proof. exact contract_b_complete. Qed.

(* statement pins *)
Check c16_shape : forall c lower keep s, is_ascii_alnum c = false ->
  sanitize (custom_str (Some [c]) lower keep None) s = spec_sanitize c lower keep s.
Check c16_contract : forall c lower keep mx s, is_ascii_alnum c = false ->
  contract c lower keep mx (sanitize (custom_str (Some [c]) lower keep mx) s).
Check c16_idempotent : forall c lower keep mx s, is_ascii_alnum c = false ->
  let z := custom_str (Some [c]) lower keep mx in sanitize z (sanitize z s) = sanitize z s.

(* non-vacuity: the hypotheses are satisfiable and the functions compute something non-trivial *)
Example c16_ex_sep : is_ascii_alnum c_dot = false /\ is_ascii_alnum c_dash = false /\ is_ascii_alnum c_under = false.
Proof. repeat split. Qed.
Example c16_ex_run :
  sanitize (custom_str (Some [c_dot]) true false (Some 9%nat)) [70;101;97;116;47;45;48;48;55;47;233;120]%N
  = [102;101;97;116;46;55;46;120]%N.   (* "Feat/-007/éx" -> "feat.7.x" *)
Proof. vm_compute. reflexivity. Qed.

Print Assumptions c16_shape.
Print Assumptions c16_contract.
Print Assumptions c16_truncation.
Print Assumptions c16_fixed.
Print Assumptions c16_idempotent.
Print Assumptions c16_uint.
Print Assumptions c16_uint_no_edge_ws.
Print Assumptions c16_oracle_sound.
Print Assumptions c16_oracle_complete.

(* THE TIE OF THE MODEL'S CONSTANT TABLES TO THE SOURCE: Gen/TablesSrc.v is regenerated from /repo by tools/tables2coq.py on every run *)
From ZV Require Import Sanitize Flow TablesSrc TablesTie.
Theorem c16_sanitizer_presets_as_in_source :
  semver_str = src_sanitizer_semver_str /\ pep440_local_str = src_sanitizer_pep440_local_str /\ uint_sanitizer = src_sanitizer_uint /\
  key_sanitizer = src_sanitizer_key /\ forall sep lower keep mx, custom_str sep lower keep mx = src_sanitizer_str sep lower keep mx.
Proof. exact sanitizer_presets_as_source. Qed.
Print Assumptions c16_sanitizer_presets_as_in_source.
