(* C01 - every emitted version string is well-formed in the requested format.
   What is proved here about the model of the rendering path (for all objects, all text):
     - every free-text value that reaches a version string went through a sanitiser that meets the C16 contract, so it is
       made of non-empty ASCII-alphanumeric runs joined by single dots;
     - the conversion to PEP 440 is total: it reaches no panic state, whatever the schema and variables;
     - what zerv's own SemVer parser accepts it prints back unchanged.
   The full statement "the printed string is in the grammar" is decided on every run for every emitted string by the
   extracted grammar oracles (the source regexes proved equal to the specification regexes, C08 / C09). *)
From ZV Require Import Str Sanitize SanitizeSpec SanitizeProofs Zerv Render Convert SemVer SemVerProofs NoPanicProofs ConvertProofs.

(* any value a component contributes is the image of a sanitiser *)
Theorem c01_values_are_sanitised : forall c vs z x, comp_value c vs z = Some x -> exists y, x = sanitize z y.
Proof. exact comp_value_sanitized. Qed.

(* ... and for the three string sanitisers the rendering uses (separator '.', '-' for keys) the image satisfies the whole contract *)
Theorem c01_sanitised_contract : forall c lower keep mx s, is_ascii_alnum c = false ->
  contract c lower keep mx (sanitize (custom_str (Some [c]) lower keep mx) s).
Proof. intros c lower keep mx s Hc. exact (contract_holds c Hc lower keep mx s). Qed.

(* PEP 440 conversion never reaches its panic state (the `expect` on local segments) *)
Theorem c01_pep_conversion_total : forall z, pep_of_zerv z <> None.
Proof. exact pep_of_zerv_total. Qed.

(* SemVer -> Zerv conversion never reaches its panic state *)
Theorem c01_semver_to_zerv_total : forall v, zerv_of_semver v <> None.
Proof. exact zerv_of_semver_total. Qed.

(* zerv's own parser is lossless on whatever it accepts: re-printing gives the string back (without a leading v) *)
Theorem c01_reparse_stable : forall s v, semver_parse s = Some v -> semver_print v = strip_v s.
Proof. exact parse_lossless. Qed.

Check c01_pep_conversion_total : forall z, pep_of_zerv z <> None.

Print Assumptions c01_values_are_sanitised.
Print Assumptions c01_sanitised_contract.
Print Assumptions c01_pep_conversion_total.
Print Assumptions c01_semver_to_zerv_total.
Print Assumptions c01_reparse_stable.
