(* C01 - every emitted version string is well-formed in the requested format.
   What is proved here about the model of the rendering path (for all objects, all text):
     - every free-text value that reaches a version string went through a sanitiser that meets the C16 contract, so it is
       made of non-empty ASCII-alphanumeric runs joined by single dots;
     - the conversion to PEP 440 is total: it reaches no panic state, whatever the schema and variables;
     - what zerv's own SemVer parser accepts it prints back unchanged.
   and, below, THE GRAMMAR THEOREMS: the printed string is in the grammar, for every object and at the level of the commands. *)
From ZV Require Import Str Sanitize SanitizeSpec SanitizeProofs Zerv Render Convert SemVer Pep440 SemVerProofs NoPanicProofs ConvertProofs Bump Cli Flow
                       RegexSrc PepWfProofs AsciiProofs GrammarProofs OutputGrammar ParseBack Pep440Nf PepRoundTrip PepParseBack PepOutNf OutputReparse.
From RelationAlgebra Require regex.

(* any value a component contributes is the image of a sanitiser *)
Theorem c01_values_are_sanitised : forall c vs z x, comp_value c vs z = Some x -> exists y, x = sanitize z y.
Proof. exact comp_value_sanitized. Qed.

(* ... and for the three string sanitisers the rendering uses (separator '.', '-' for keys) the image satisfies the whole contract *)
Theorem c01_sanitised_contract : forall c lower keep mx s, is_ascii_alnum c = false ->
  contract c lower keep mx (sanitize (custom_str (Some [c]) lower keep mx) s).
Proof. intros c lower keep mx s Hc. exact (contract_holds c Hc lower keep mx s). Qed.

(* PEP 440 conversion never reaches its panic state (the `expect` on local segments) *)
Theorem c01_pep_conversion_total : forall z, pep_of_zerv z <> None.
Proof. exact pep_of_zerv_total. Qed.

(* SemVer -> Zerv conversion never reaches its panic state *)
Theorem c01_semver_to_zerv_total : forall v, zerv_of_semver v <> None.
Proof. exact zerv_of_semver_total. Qed.

(* zerv's own parser is lossless on whatever it accepts: re-printing gives the string back (without a leading v) *)
Theorem c01_reparse_stable : forall s v, semver_parse s = Some v -> semver_print v = strip_v s.
Proof. exact parse_lossless. Qed.

(* THE GRAMMAR THEOREMS.  For every Zerv object the SemVer rendering is in the SemVer 2.0.0 BNF language and the PEP 440 rendering is in the
   Appendix B language (both regexes regenerated / transcribed in Gen/RegexSrc.v; the BNF one is proved equal to the regex in the source).
   Route: C16 contract -> identifiers / local segments well-formed -> printed string in the language of printed strings (structural
   membership) -> that language is included in the grammar (decided by ka on every run). *)
Theorem c01_semver_in_grammar : forall z, regex.lang semver_spec (map semver_atom_of (semver_print (semver_of_zerv z))).
Proof. exact semver_output_in_bnf. Qed.

Theorem c01_pep440_in_grammar : forall z p, pep_of_zerv z = Some p -> regex.lang pep440_spec (map pep440_atom_of (pep_print p)).
Proof. exact pep440_output_in_appendix_b. Qed.

(* ... made only of ASCII characters of that grammar: letters, digits, '.', '-', '+' (SemVer); letters, digits, '.', '+', '!' (PEP 440) *)
Theorem c01_semver_ascii : forall z, Forall (fun c => sv_char c = true) (semver_print (semver_of_zerv z)) /\
                                     Forall (fun c => (c < 128)%N) (semver_print (semver_of_zerv z)).
Proof. intros z. split; [apply semver_output_chars|apply semver_output_ascii]. Qed.

Theorem c01_pep440_ascii : forall z p, pep_of_zerv z = Some p ->
  Forall (fun c => pp_char c = true) (pep_print p) /\ Forall (fun c => (c < 128)%N) (pep_print p).
Proof. intros z p H. split; [apply (pep_output_chars z p H)|apply (pep_output_ascii z p H)]. Qed.

(* zerv's own SemVer parser accepts every SemVer string zerv prints and returns exactly the value that was printed (so `zerv check` accepts it
   and re-rendering it in the same format returns it unchanged) *)
Theorem c01_own_parser_accepts_semver : forall z, semver_parse (semver_print (semver_of_zerv z)) = Some (semver_of_zerv z).
Proof. exact parse_back. Qed.

(* ... and its own PEP 440 parser accepts EVERY PEP 440 string zerv prints and returns the value printed: every PEP 440 value rendered
   from a Zerv object is in normal form (numbers below 2^32 - larger variable values never reach a numeric field -, every label with its
   number, local segments lower-case alphanumeric or numbers) *)
Theorem c01_pep440_rendering_normal_form : forall z p, pep_of_zerv z = Some p -> pep_nf p.
Proof. exact pep_of_zerv_nf. Qed.

Theorem c01_own_parser_accepts_pep440 : forall z p, pep_of_zerv z = Some p -> pep_parse (pep_print p) = Some p.
Proof. exact pep_parse_back_all. Qed.

(* the PEP 440 value is printable in normal form: non-empty release, every label carries its number, local segments are numbers or
   non-empty ASCII-alphanumeric strings *)
Theorem c01_pep440_normal_shape : forall z p, pep_of_zerv z = Some p -> pep_wf p.
Proof. exact pep_of_zerv_wf. Qed.

(* ... and at the level of the commands, for all arguments, stdin objects and clock values: stdout (without the newline) is the prefix
   followed by a member of the grammar *)
Theorem c01_version_semver : forall a stdin now t, g_output_format a = OutSemver -> version_output a stdin now = OOk t ->
  exists v, t = prefix_of a ++ v /\ regex.lang semver_spec (map semver_atom_of v).
Proof. exact version_semver_in_grammar. Qed.
Theorem c01_version_pep440 : forall a stdin now t, g_output_format a = OutPep440 -> version_output a stdin now = OOk t ->
  exists v, t = prefix_of a ++ v /\ regex.lang pep440_spec (map pep440_atom_of v).
Proof. exact version_pep440_in_grammar. Qed.
Theorem c01_flow_semver : forall f stdin now t, g_output_format (f_base f) = OutSemver -> flow_output f stdin now = OOk t ->
  exists v, t = prefix_of (f_base f) ++ v /\ regex.lang semver_spec (map semver_atom_of v).
Proof. exact flow_semver_in_grammar. Qed.
Theorem c01_flow_pep440 : forall f stdin now t, g_output_format (f_base f) = OutPep440 -> flow_output f stdin now = OOk t ->
  exists v, t = prefix_of (f_base f) ++ v /\ regex.lang pep440_spec (map pep440_atom_of v).
Proof. exact flow_pep440_in_grammar. Qed.
Theorem c01_render_semver : forall inf pre s t, render_cmd inf FSemver pre s = OOk t ->
  exists v, t = pre ++ v /\ regex.lang semver_spec (map semver_atom_of v).
Proof. exact render_semver_in_grammar. Qed.
Theorem c01_render_pep440 : forall inf pre s t, render_cmd inf FPep440 pre s = OOk t ->
  exists v, t = pre ++ v /\ regex.lang pep440_spec (map pep440_atom_of v).
Proof. exact render_pep440_in_grammar. Qed.

Check c01_pep_conversion_total : forall z, pep_of_zerv z <> None.

(* ... and is read back by zerv's own parser of that format as exactly the value printed (`zerv check` accepts every version zerv prints) *)
Theorem c01_version_semver_reparsed : forall a stdin now t, g_output_format a = OutSemver -> version_output a stdin now = OOk t ->
  exists v, t = prefix_of a ++ semver_print v /\ semver_parse (semver_print v) = Some v.
Proof. exact version_semver_reparsed. Qed.
Theorem c01_version_pep440_reparsed : forall a stdin now t, g_output_format a = OutPep440 -> version_output a stdin now = OOk t ->
  exists p, t = prefix_of a ++ pep_print p /\ pep_parse (pep_print p) = Some p.
Proof. exact version_pep440_reparsed. Qed.
Theorem c01_flow_semver_reparsed : forall f stdin now t, g_output_format (f_base f) = OutSemver -> flow_output f stdin now = OOk t ->
  exists v, t = prefix_of (f_base f) ++ semver_print v /\ semver_parse (semver_print v) = Some v.
Proof. exact flow_semver_reparsed. Qed.
Theorem c01_flow_pep440_reparsed : forall f stdin now t, g_output_format (f_base f) = OutPep440 -> flow_output f stdin now = OOk t ->
  exists p, t = prefix_of (f_base f) ++ pep_print p /\ pep_parse (pep_print p) = Some p.
Proof. exact flow_pep440_reparsed. Qed.
Theorem c01_render_semver_reparsed : forall inf pre s t, render_cmd inf FSemver pre s = OOk t ->
  exists v, t = pre ++ semver_print v /\ semver_parse (semver_print v) = Some v.
Proof. exact render_semver_reparsed. Qed.
Theorem c01_render_pep440_reparsed : forall inf pre s t, render_cmd inf FPep440 pre s = OOk t ->
  exists p, t = pre ++ pep_print p /\ pep_parse (pep_print p) = Some p.
Proof. exact render_pep440_reparsed. Qed.

Print Assumptions c01_values_are_sanitised.
Print Assumptions c01_sanitised_contract.
Print Assumptions c01_pep_conversion_total.
Print Assumptions c01_semver_to_zerv_total.
Print Assumptions c01_reparse_stable.
Print Assumptions c01_semver_in_grammar.
Print Assumptions c01_pep440_in_grammar.
Print Assumptions c01_pep440_normal_shape.
Print Assumptions c01_version_semver.
Print Assumptions c01_version_pep440.
Print Assumptions c01_flow_semver.
Print Assumptions c01_flow_pep440.
Print Assumptions c01_render_semver.
Print Assumptions c01_render_pep440.
Print Assumptions c01_semver_ascii.
Print Assumptions c01_pep440_ascii.
Print Assumptions c01_own_parser_accepts_semver.
Print Assumptions c01_own_parser_accepts_pep440.
Print Assumptions c01_pep440_rendering_normal_form.
Print Assumptions c01_version_semver_reparsed.
Print Assumptions c01_version_pep440_reparsed.
Print Assumptions c01_flow_semver_reparsed.
Print Assumptions c01_flow_pep440_reparsed.
Print Assumptions c01_render_semver_reparsed.
Print Assumptions c01_render_pep440_reparsed.

(* THE TIE OF THE MODEL'S CONSTANT TABLES TO THE SOURCE: Gen/TablesSrc.v is regenerated from /repo by tools/tables2coq.py on every run *)
From ZV Require Import Timestamp Render Convert TablesSrc TablesTie.
Theorem c01_preset_component_tables_as_in_source :
  standard_core = src_components_standard_core /\ calver_core = src_components_calver_core /\ epoch_extra = src_components_epoch_extra_core /\
  prerelease_extra = src_components_prerelease_core /\ prerelease_post_extra = src_components_prerelease_post_core /\
  prerelease_post_dev_extra = src_components_prerelease_post_dev_core /\ build_context = src_components_build_context.
Proof. exact component_tables_as_source. Qed.
Print Assumptions c01_preset_component_tables_as_in_source.

(* src/schema/presets.rs translated: every preset, on every variable state, stands for the schema the model uses; its name is read to the same preset;
   the schema passes the placement validation (the unwrap()s of the builders cannot fail) *)
Theorem c01_presets_as_in_source : forall p vs, src_schema_with_zerv p vs = Some (schema_with_zerv (model_of p) vs).
Proof. exact schema_with_zerv_as_source. Qed.
Theorem c01_preset_names_as_in_source :
  map (fun e => preset_of_name (fst e)) src_preset_names = map (fun e => Some (model_of (snd e))) src_preset_names /\ forall p, In p (map snd src_preset_names).
Proof. split; [exact preset_names_as_source|exact every_preset_named]. Qed.
Theorem c01_preset_schemas_valid : forall p vs s, src_schema_with_zerv p vs = Some s -> schema_validate s = true.
Proof. exact preset_schemas_valid. Qed.
Print Assumptions c01_presets_as_in_source.
Print Assumptions c01_preset_names_as_in_source.
Print Assumptions c01_preset_schemas_valid.
