(* C10 - SemVer comparison is SemVer 2.0.0 precedence (Spec/SemVerSpec.v: section 11 clause by clause). *)
From ZV Require Import Str SemVer SemVerSpec SemVerProofs Convert Findings.

Theorem c10_lt_agrees : forall a b, semver_cmp a b = Lt <-> sv_lt a b.
Proof. exact semver_cmp_lt. Qed.

Theorem c10_gt_agrees : forall a b, semver_cmp a b = Gt <-> sv_lt b a.
Proof. exact semver_cmp_gt. Qed.

(* equality holds exactly when neither version is lower ... *)
Theorem c10_eq_iff_neither_lower : forall a b, semver_cmp a b = Eq <-> ~ sv_lt a b /\ ~ sv_lt b a.
Proof. exact semver_cmp_eq_iff_neither. Qed.

(* ... which is: same major, minor, patch and pre-release; build metadata plays no role *)
Theorem c10_eq_iff_key : forall a b, semver_cmp a b = Eq <-> sv_key a = sv_key b.
Proof. exact semver_cmp_eq. Qed.

Theorem c10_eqb_is_cmp : forall a b, semver_eqb a b = true <-> semver_cmp a b = Eq.
Proof. intros a b. unfold semver_eqb. destruct (semver_cmp a b); split; congruence. Qed.

(* total order: antisymmetric and transitive *)
Theorem c10_antisym : forall a b, semver_cmp b a = CompOpp (semver_cmp a b).
Proof. exact semver_cmp_opp. Qed.

Theorem c10_trans : forall a b c, semver_cmp a b = Lt -> semver_cmp b c = Lt -> semver_cmp a c = Lt.
Proof. exact semver_cmp_trans. Qed.

Theorem c10_build_ignored : forall a b x,
  semver_cmp {| sv_major := sv_major a; sv_minor := sv_minor a; sv_patch := sv_patch a; sv_pre := sv_pre a; sv_build := x |} b
  = semver_cmp a b.
Proof. exact semver_build_ignored. Qed.

(* the greatest tag on a commit is well defined: the fold of find_max_version_tag returns a member
   that no member exceeds *)
Theorem c10_max_well_defined : forall l cur,
  let m := max_by_last semver_cmp cur l in
  In m (cur :: l) /\ forall x, In x (cur :: l) -> semver_cmp x m <> Gt.
Proof. exact semver_max_well_defined. Qed.

Check c10_lt_agrees : forall a b, semver_cmp a b = Lt <-> sv_lt a b.
Check c10_trans : forall a b c, semver_cmp a b = Lt -> semver_cmp b c = Lt -> semver_cmp a c = Lt.

(* non-vacuity: 1.0.0-alpha.1 < 1.0.0-alpha.beta < 1.0.0-rc.1 < 1.0.0 *)
Example c10_ex :
  let v p := {| sv_major := 1; sv_minor := 0; sv_patch := 0; sv_pre := p; sv_build := None |} in
  semver_cmp (v (Some [IStr [97]; IUInt 1])) (v (Some [IStr [97]; IStr [98]])) = Lt /\
  semver_cmp (v (Some [IStr [97]; IStr [98]])) (v (Some [IStr [114]; IUInt 1])) = Lt /\
  semver_cmp (v (Some [IStr [114]; IUInt 1])) (v None) = Lt.
Proof. vm_compute. repeat split. Qed.

(* KNOWN FINDING of this property, as the model exhibits it (the check prints KNOWN-FINDING for the class; see known_findings.json) *)
Example c10_finding_c10_oversize_identifiers :
match semver_parse [49;46;48;46;48;45;49;56;52;52;54;55;52;52;48;55;51;55;48;57;53;53;49;54;49;54]%N, semver_parse [49;46;48;46;48;45;49;48;48;48;48;48;48;48;48;48;48;48;48;48;48;48;48;48;48;48;48]%N with
  | Some a, Some b => semver_cmp a b = Gt
  | _, _ => False
  end.
Proof. exact finding_c10_oversize_identifiers. Qed.

Print Assumptions c10_lt_agrees.
Print Assumptions c10_gt_agrees.
Print Assumptions c10_eq_iff_neither_lower.
Print Assumptions c10_eq_iff_key.
Print Assumptions c10_eqb_is_cmp.
Print Assumptions c10_antisym.
Print Assumptions c10_trans.
Print Assumptions c10_build_ignored.
Print Assumptions c10_max_well_defined.
