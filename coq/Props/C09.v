(* C09: the PEP 440 parser accepts exactly Appendix B and prints the normal form. *)
From ZV Require Import Str Dec Rx RegexSrc Pep440 RegexEquiv Pep440Nf PepRoundTrip PepParseBack PepParseNf PepAccept PepCapsSound.
From RelationAlgebra Require regex.

(* Tie 1, re-decided on every run: the source regex and Appendix B's regex denote the same language *)
Theorem c09_regex_is_appendix_b : forall w, regex.lang pep440_src w <-> regex.lang pep440_spec w.
Proof. exact pep440_regex_lang. Qed.

Theorem c09_matcher_decides : forall e w, rx_accepts e w = true <-> regex.lang e w.
Proof. exact rx_accepts_lang. Qed.

(* THE ACCEPTANCE THEOREM, for every string: the parser accepts s exactly when s is a member of the Appendix B language and the numbers
   the capture scanner extracts from it fit u32 ([numbers_fit s]: epoch, release numbers, pre / post / dev numbers; the u32 bound is
   known finding numeric-field>=2^32 - PEP 440 itself has no bound).  The hard direction: EVERY member - any case, any of the separators
   - _ . or none, alternative label spellings, leading zeros, v prefix, implicit numbers, the -N post form - is split into captures by the
   backtracking scanner (member_has_caps), by inverting membership in a regex that ka proves to contain Appendix B (GrammarKa.pp_in_ka,
   re-decided on every run), and the conversion of the captures fails only on a number of 2^32 or more (pep_of_caps_iff). *)
Theorem c09_accepts_iff : forall s,
  (exists v, pep_parse s = Some v) <-> regex.lang pep440_spec (map pep440_atom_of s) /\ numbers_fit s.
Proof. exact pep_accepts_iff. Qed.

Theorem c09_member_has_captures : forall s, regex.lang pep440_spec (map pep440_atom_of s) -> pep_caps s <> None.
Proof. exact member_has_caps. Qed.

Theorem c09_member_refused_only_for_size : forall s, regex.lang pep440_spec (map pep440_atom_of s) -> pep_parse s = None ->
  exists k, pep_caps s = Some k /\ ~ caps_fit k.
Proof. exact member_refused_only_for_size. Qed.

(* non-vacuity: an exotic spelling is a member and is accepted; a member with a release number of 2^32 is the refused case *)
Example c09_accepts_ex :
  (* "V01!1.02_ALPHA-3-4.DEV_5+Ab-0_1" *)
  let s := [86;48;49;33;49;46;48;50;95;65;76;80;72;65;45;51;45;52;46;68;69;86;95;53;43;65;98;45;48;95;49]%N in
  rx_accepts pep440_spec (map pep440_atom_of s) = true /\ pep_parse s <> None /\
  rx_accepts pep440_spec (map pep440_atom_of (print_dec 4294967296 ++ [46;48])%N) = true /\ pep_parse (print_dec 4294967296 ++ [46;48])%N = None.
Proof. vm_compute. repeat split; discriminate. Qed.



(* The printed normal form is a fixed point of the parser: every PEP 440 value in normal form (non-empty release, every label with its
   number, local segments lower-case alphanumeric or numbers, all numbers below 2^32) is printed to a string that zerv's own parser -
   regex acceptance AND the capture scanner AND the conversions - accepts, and the value read back is exactly the one printed: every
   number preserved, no part dropped, moved or re-spelled.  Hence normalising a normal form changes nothing. *)
Theorem c09_normal_form_is_read_back : forall p, pep_nf p -> pep_parse (pep_print p) = Some p.
Proof. exact pep_parse_print. Qed.

(* the executable form of the hypothesis, evaluated by the correspondence run on every value the parser returns *)
Theorem c09_normal_form_decidable : forall p, pep_nf_b p = true -> pep_parse (pep_print p) = Some p.
Proof. intros p H. apply pep_parse_print, pep_nf_b_sound, H. Qed.

Example c09_normal_form_nonvacuous :
  let p := {| p_epoch := 2; p_release := [1; 20; 0]; p_pre_label := Some Rc; p_pre_num := Some 3; p_post_label := true; p_post_num := Some 4;
              p_dev_label := true; p_dev_num := Some 5; p_local := Some [LStr [117; 98]; LUInt 7] |} in
  pep_nf_b p = true /\ pep_parse (pep_print p) = Some p.
Proof. exact pep_parse_print_nonvacuous. Qed.


(* Whatever the parser returns - for EVERY input string - is in normal form: non-empty release, every number below 2^32 and preserved
   as parsed, every label with its number (implicit numbers are 0), local segments lower-case alphanumeric or numbers. *)
Theorem c09_parser_returns_normal_form : forall s v, pep_parse s = Some v -> pep_nf v.
Proof. exact pep_parse_nf. Qed.

(* NORMALISING IS IDEMPOTENT, for every accepted string: the printed normal form is accepted again and parses to the same value (so
   printing it again gives the same string) ... *)
Theorem c09_normalising_idempotent : forall s v, pep_parse s = Some v -> pep_parse (pep_print v) = Some v.
Proof. exact pep_normalise_idempotent. Qed.

(* ... and the normal form compares equal to the original *)
Theorem c09_normal_form_equals_original : forall s v, pep_parse s = Some v ->
  exists v', pep_parse (pep_print v) = Some v' /\ pep_cmp v v' = Eq /\ pep_print v' = pep_print v.
Proof. exact pep_normal_form_equal. Qed.

(* EVERY NUMBER IS PRESERVED EXACTLY, whatever the spelling: the captures of an accepted string reconstruct it -
   s = [v|V] [E!] N(.N)* [pre] [post] [dev] [+local], each optional piece being [sep] label [sep] [digits] (or -digits for post) with the
   label in any case - and the numbers of the parsed value are the values (u32) of exactly those digit strings, an absent number of a
   present label reading as 0 *)
Theorem c09_captures_reconstruct_input : forall s k, pep_caps s = Some k ->
  exists V PRE POST DEV,
    s = V ++ (match k_epoch k with Some e => e ++ [c_bang] | None => [] end) ++ join_dot (k_release k) ++ PRE ++ POST ++ DEV
          ++ (match k_local k with Some l => c_plus :: l | None => [] end) /\
    (V = [] \/ V = [118%N] \/ V = [86%N]) /\ (match k_epoch k with Some e => dnum e | None => True end) /\
    Forall dnum (k_release k) /\ k_release k <> [] /\ pre_cap_piece PRE (k_pre k) /\ post_cap_piece POST (k_post k) /\ dev_cap_piece DEV (k_dev k).
Proof. exact caps_sound. Qed.

Theorem c09_numbers_are_the_written_digits : forall s v, pep_parse s = Some v -> exists k, pep_caps s = Some k /\
  map_opt_n num32 (k_release k) = Some (p_release v) /\
  (match k_epoch k with Some e => num32 e = Some (p_epoch v) | None => p_epoch v = 0%N end) /\
  (match k_pre k with Some (lab, n) => p_pre_label v = Some lab /\ num_of n (p_pre_num v) | None => p_pre_label v = None /\ p_pre_num v = None end) /\
  (match k_post k with Some n => p_post_label v = true /\ num_of n (p_post_num v) | None => p_post_label v = false /\ p_post_num v = None end) /\
  (match k_dev k with Some n => p_dev_label v = true /\ num_of n (p_dev_num v) | None => p_dev_label v = false /\ p_dev_num v = None end).
Proof. exact parsed_numbers. Qed.

Print Assumptions c09_regex_is_appendix_b.
Print Assumptions c09_matcher_decides.
Print Assumptions c09_accepts_iff.
Print Assumptions c09_member_has_captures.
Print Assumptions c09_member_refused_only_for_size.
Print Assumptions c09_normal_form_is_read_back.
Print Assumptions c09_normal_form_decidable.
Print Assumptions c09_parser_returns_normal_form.
Print Assumptions c09_normalising_idempotent.
Print Assumptions c09_normal_form_equals_original.
Print Assumptions c09_captures_reconstruct_input.
Print Assumptions c09_numbers_are_the_written_digits.
