(* C09 - placeholder statements are added below as proofs land. *)
From ZV Require Import Str Dec Rx RegexSrc Pep440 RegexEquiv.
From RelationAlgebra Require regex.

(* Tie 1, re-decided on every run: the source regex and Appendix B's regex denote the same language *)
Theorem c09_regex_is_appendix_b : forall w, regex.lang pep440_src w <-> regex.lang pep440_spec w.
Proof. exact pep440_regex_lang. Qed.

Theorem c09_matcher_decides : forall e w, rx_accepts e w = true <-> regex.lang e w.
Proof. exact rx_accepts_lang. Qed.

(* PARTIAL, as for C08: acceptance = Appendix B language AND the capture scanner / conversions succeed *)
Theorem c09_accepts_iff_partial : forall s,
  (exists v, pep_parse s = Some v) <->
  regex.lang pep440_spec (map pep440_atom_of s) /\ (exists v, pep_extract s = Some v).
Proof.
  intros s. unfold pep_parse. rewrite <- pep440_regex_lang, <- rx_accepts_lang.
  destruct (rx_accepts pep440_src (map pep440_atom_of s)); split.
  - intros H. split; [reflexivity|exact H].
  - intros [_ H]. exact H.
  - intros [v H]. discriminate.
  - intros [H _]. discriminate.
Qed.

Print Assumptions c09_regex_is_appendix_b.
Print Assumptions c09_matcher_decides.
Print Assumptions c09_accepts_iff_partial.
