(* C05 - override, bump and reset semantics follow the precedence order.
   Model: Model/Bump.v (bump/*.rs) + Model/Cli.v (argument resolution, context overrides, zerv_draft). *)
From ZV Require Import Str Dec Zerv Bump Cli BumpProofs CtxFrame PepRoundTrip IndexOps PipeIdentity.

(* the engine IS a single pass over the precedence order, override-then-bump per level (by definition of the model;
   stated so that a change of shape is visible) *)
Theorem c05_is_level_fold : forall a z,
  apply_component_processing a z =
  fold_left (fun acc p => match acc with Some z' => process_level a z' p | None => None end) (prec_order (z_schema z)) (Some z).
Proof. reflexivity. Qed.

(* resetting after a bump at level p touches the levels AFTER p in the order and nothing else
   (the only coupling: clearing the pre-release label clears its number, which the default order places later anyway) *)
Theorem c05_reset_frame : forall order vs p vs' later,
  reset_lower order vs p = Some vs' -> levels_after order p = Some later ->
  forall q, ~ In q later -> (q = PPreNum -> ~ In PPreLabel later) -> obs q vs' = obs q vs.
Proof. exact reset_lower_frame. Qed.

(* a numeric field operation (epoch, major, minor, patch, post, dev - by name or reached through a schema index) never
   changes a higher level: everything except its own level and the later ones is left as it was *)
Theorem c05_no_higher_level_changes : forall order get set lvl ov bv vs vs' later,
  numeric_level lvl get set ->
  process_num order get set lvl ov bv vs = Some vs' -> levels_after order lvl = Some later ->
  forall q, q <> lvl -> ~ In q later -> (q = PPreNum -> ~ In PPreLabel later) -> obs q vs' = obs q vs.
Proof. exact process_num_frame. Qed.

(* an override alone changes nothing but its own level *)
Theorem c05_override_local : forall order get set lvl x vs vs',
  numeric_level lvl get set -> process_num order get set lvl (Some x) None vs = Some vs' ->
  forall q, q <> lvl -> obs q vs' = obs q vs.
Proof. exact override_only_touches_its_level. Qed.

(* what a reset does to a level: numbers to 0, pre-release / post / dev to absent *)
Theorem c05_reset_effect : forall vs p,
  match p with
  | PEpoch | PMajor | PMinor | PPatch => obs p (reset_level vs p) = LNum (Some 0)
  | PPreLabel => obs p (reset_level vs p) = LLabel None
  | PPost | PDev => obs p (reset_level vs p) = LNum None
  | PPreNum => obs p (reset_level vs p) = LPreNum (omap (fun _ => Some 0) (v_pre vs))
  | _ => True
  end.
Proof. exact reset_level_effect. Qed.

(* the six numeric levels are numeric levels *)
Theorem c05_numeric_levels :
  numeric_level PMajor v_major set_major /\ numeric_level PMinor v_minor set_minor /\ numeric_level PPatch v_patch set_patch /\
  numeric_level PEpoch v_epoch set_epoch /\ numeric_level PPost v_post set_post /\ numeric_level PDev v_dev set_dev.
Proof. repeat split; [exact numeric_major|exact numeric_minor|exact numeric_patch|exact numeric_epoch|exact numeric_post|exact numeric_dev]. Qed.

(* non-vacuity: bump minor on 1.2.3-rc.4.post.5 resets patch, pre-release and post, leaves major *)
Example c05_ex :
  let vs := set_post (set_pre (set_patch (set_minor (set_major empty_vars (Some 1)) (Some 2)) (Some 3)) (Some {| pr_label := Rc; pr_num := Some 4 |})) (Some 5) in
  option_map (fun v => (v_major v, v_minor v, v_patch v, v_pre v, v_post v)) (process_minor default_prec None (Some 1) vs)
  = Some (Some 1, Some 3, Some 0, None, None).
Proof. vm_compute. reflexivity. Qed.

(* no override, bump or reset - by name or by schema index - ever changes a VCS-derived field or the custom values *)
Theorem c05_context_untouched : forall a z z', apply_component_processing a z = Some z' -> ctxv (z_vars z') = ctxv (z_vars z).
Proof. exact processing_keeps_context. Qed.

(* an index-addressed operation on a position holding a version variable is exactly the by-name override / bump of that variable *)
Theorem c05_index_op_is_by_name : forall sec ix v o b z,
  nth_error (get_part (z_schema z) sec) ix = Some (CVar v) -> (forall p, v <> Ts p) ->
  (match o with Some n => u32 n | None => True end) -> (match b with Some n => u32 n | None => True end) ->
  process_component sec ix (num_text o) (num_text b) z
  = match by_name (prec_order (z_schema z)) v o b (z_vars z) with Some vs => Some {| z_schema := z_schema z; z_vars := vs |} | None => None end.
Proof. exact index_op_is_by_name. Qed.

(* invalid targets are rejected: VCS-derived variables, custom values and timestamps; positions outside the section *)
Theorem c05_index_op_rejects_context : forall sec ix v ov bv z,
  nth_error (get_part (z_schema z) sec) ix = Some (CVar v) -> is_primary v = false -> is_secondary v = false ->
  process_component sec ix ov bv z = None.
Proof. exact index_op_rejects_context. Qed.
Theorem c05_index_op_out_of_range : forall sec ix ov bv z, nth_error (get_part (z_schema z) sec) ix = None -> process_component sec ix ov bv z = None.
Proof. exact index_op_out_of_range. Qed.

(* with no override, no bump and no index operation at all, processing changes nothing: neither a variable nor the schema *)
Theorem c05_no_operation_no_change : forall z, apply_component_processing no_ops z = Some z.
Proof. exact processing_no_ops. Qed.

Print Assumptions c05_is_level_fold.
Print Assumptions c05_reset_frame.
Print Assumptions c05_no_higher_level_changes.
Print Assumptions c05_override_local.
Print Assumptions c05_reset_effect.
Print Assumptions c05_numeric_levels.
Print Assumptions c05_context_untouched.
Print Assumptions c05_index_op_is_by_name.
Print Assumptions c05_index_op_rejects_context.
Print Assumptions c05_index_op_out_of_range.
Print Assumptions c05_no_operation_no_change.

(* THE TIE OF THE MODEL'S CONSTANT TABLES TO THE SOURCE: Gen/TablesSrc.v is regenerated from /repo by tools/tables2coq.py on every run *)
From ZV Require Import Timestamp Render Convert TablesSrc TablesTie.
Theorem c05_precedence_order_as_in_source : default_prec = src_pep440_based.
Proof. exact default_prec_as_source. Qed.
Print Assumptions c05_precedence_order_as_in_source.
