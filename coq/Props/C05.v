(* C05 - statements are added as proofs land. *)
From ZV Require Import Str Zerv Bump Cli.
