(* C04 - flow derives pre-release, post and dev parts from the documented branch rules.
   Model: Model/Flow.v (the cli/flow module: branch rules, two-pass pipeline, the five bump templates as the conditions they
   evaluate to) + Model/Hash.v (SipHash-1-3 of DefaultHasher::new(), hash_int / hash). *)
From ZV Require Import Str Dec Hash Flow FlowProofs Convert Zerv Render Bump Cli ClockProofs CtxFrame FlowClock FlowLaw Findings.
Open Scope N_scope.

(* rule patterns: `prefix/*` matches exactly the names that have `prefix/` as a proper prefix ... *)
Theorem c04_wildcard_rule : forall (p : str) lab num mode branch,
  str_eqb (p ++ [47; 42]) s_star = false ->
  rule_matches {| r_pattern := p ++ [47; 42]; r_label := lab; r_num := num; r_mode := mode |} branch = true
  <-> exists rest, rest <> [] /\ branch = p ++ [47] ++ rest.
Proof. exact wildcard_rule_matches. Qed.

(* ... `*` matches every non-empty name, any other pattern matches only itself ... *)
Theorem c04_star_rule : forall lab num mode branch,
  rule_matches {| r_pattern := s_star; r_label := lab; r_num := num; r_mode := mode |} branch = true <-> branch <> [].
Proof. exact star_rule_matches. Qed.

Theorem c04_exact_rule : forall pat lab num mode branch,
  str_eqb pat s_star = false -> ends_slash_star pat = false ->
  rule_matches {| r_pattern := pat; r_label := lab; r_num := num; r_mode := mode |} branch = true <-> branch = pat.
Proof. exact exact_rule_matches. Qed.

(* ... and the FIRST matching rule decides *)
Theorem c04_first_match : forall rules b r, find (fun r => rule_matches r b) rules = Some r ->
  rule_matches r b = true /\ exists before after, rules = before ++ r :: after /\ forallb (fun q => negb (rule_matches q b)) before = true.
Proof. exact first_match_wins. Qed.

(* the branch hash is a function of (branch, length) (it is a Gallina function) with at most `length` characters *)
Theorem c04_hash_length : forall s len lead, (length (hash_int s len lead) <= len)%nat.
Proof. exact hash_int_length. Qed.

(* non-vacuity: the default rules; `releases` and `release-7` do not match `release/*`; SipHash test vector of std *)
Example c04_ex_rules :
  let b s := resolve_for_branch default_rules (Some s) in
  b [114;101;108;101;97;115;101;47;55] = (Pep440.Rc, Some 7, ModeTag) /\            (* release/7 *)
  b [114;101;108;101;97;115;101;115] = (Pep440.Alpha, None, ModeCommit) /\          (* releases *)
  b [114;101;108;101;97;115;101;45;55] = (Pep440.Alpha, None, ModeCommit) /\        (* release-7 *)
  b [100;101;118;101;108;111;112] = (Pep440.Beta, Some 1, ModeCommit).              (* develop *)
Proof. vm_compute. repeat split. Qed.

(* nothing changes at a clean tagged commit: when --dirty is not forced and the state is calm (not dirty, distance 0 or unset), flow's
   result is exactly the object of its first pass - the base version with the explicit overrides, no bump, no dev timestamp *)
Theorem c04_clean_tag_unchanged : forall f stdin now,
  o_dirty (f_base f) = false -> flow_validate f = true ->
  forall cur, (let a1 := pass_args f false in run_pass a1 (flow_overrides a1) stdin now = OOk cur) -> calm (z_vars cur) ->
  flow_zerv f stdin now = OOk cur.
Proof. exact flow_clean_is_first_pass. Qed.

(* THE FLOW LAW (dirty or ahead).  On the default precedence order, for ANY starting variables: the bump arguments flow computes are
   [flow_args] and the bump / reset engine turns them into [law_vars]: patch+1 iff the base has no pre-release; pre-release := (label,
   number); post := (--post or the base post, 0 if unset) + distance (commit mode) or + 1 (tag mode); dev := now iff dirty (commit mode)
   or dirty/ahead (tag mode); epoch, major, minor and the VCS context untouched.  The number is the rule's / flag's number or else the
   branch hash of the configured length. *)
Theorem c04_flow_law : forall s vs opost lab n pamt dev,
  prec_order s = default_prec ->
  fits (n0 (v_patch vs) + 1) -> fits n ->
  (match pamt with Some k => fits (n0 opost + k) | None => True end) ->
  (match dev with Some d => fits d | None => True end) ->
  apply_component_processing (flow_args vs opost lab n pamt dev) {| z_schema := s; z_vars := vs |}
  = Some {| z_schema := s; z_vars := law_vars vs opost lab n pamt dev |}.
Proof. exact flow_law. Qed.

Theorem c04_second_pass_law : forall lab num mode hl now a s vs ra n,
  prec_order s = default_prec ->
  resolve_args a = Some ra -> ro_major ra = None -> ro_minor ra = None -> ro_patch ra = None -> ro_epoch ra = None ->
  flow_cond vs = true -> flow_number num hl vs = Some n -> u32_fits n = true ->
  (match flow_post_amount mode vs with Some k => u32_fits k = true | None => True end) ->
  (flow_dev_on mode vs = true -> u32_fits now = true) ->
  let opost := match o_post a with Some _ => ro_post ra | None => v_post vs end in
  fits (n0 (v_patch vs) + 1) -> (match flow_post_amount mode vs with Some k => fits (n0 opost + k) | None => True end) ->
  exists b, flow_bumps lab num mode hl now a {| z_schema := s; z_vars := vs |} = Some b /\
            apply_component_processing b {| z_schema := s; z_vars := vs |}
            = Some {| z_schema := s; z_vars := law_vars vs opost lab n (flow_post_amount mode vs) (if flow_dev_on mode vs then Some now else None) |}.
Proof. exact flow_second_pass_law. Qed.

(* KNOWN FINDING of this property, as the model exhibits it (the check prints KNOWN-FINDING for the class; see known_findings.json) *)
Example c04_finding_c04_hash_len_10 :
(exists t, flow_output (w_flow [115;116;97;110;100;97;114;100]%N 1 9 [102;101;97;116;117;114;101;47;102;111;111]%N OutSemver) None 1700000000 = OOk t) /\
  flow_output (w_flow [115;116;97;110;100;97;114;100]%N 1 10 [102;101;97;116;117;114;101;47;102;111;111]%N OutSemver) None 1700000000 = OErr.
Proof. exact finding_c04_hash_len_10. Qed.

Print Assumptions c04_wildcard_rule.
Print Assumptions c04_star_rule.
Print Assumptions c04_exact_rule.
Print Assumptions c04_first_match.
Print Assumptions c04_hash_length.
Print Assumptions c04_clean_tag_unchanged.
Print Assumptions c04_flow_law.
Print Assumptions c04_second_pass_law.

(* THE TIE OF THE MODEL'S CONSTANT TABLES TO THE SOURCE: Gen/TablesSrc.v is regenerated from /repo by tools/tables2coq.py on every run *)
From ZV Require Import Sanitize Flow TablesSrc TablesTie.
Theorem c04_default_rules_as_in_source : default_rules = src_default_rules.
Proof. exact default_rules_as_source. Qed.
Theorem c04_no_rule_answer_as_in_source : forall rules b, find (fun r => rule_matches r b) rules = None ->
  resolve_for_branch rules (Some b) = src_no_rule_answer /\ resolve_for_branch rules None = src_no_rule_answer.
Proof. exact no_rule_answer_as_source. Qed.
Print Assumptions c04_default_rules_as_in_source.
Print Assumptions c04_no_rule_answer_as_in_source.
