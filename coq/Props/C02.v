(* C02 - git state extraction is faithful to the repository history.
   Model: Model/Git.v - an abstract repository (commits reachable from HEAD with parents, times, hashes; tags with the commit they
   point at; branch; work-tree state).  The theorems quantify over EVERY such repository whose commit list is a topological order
   (which the check verifies, on every run, for the list git itself printed). *)
From ZV Require Import Str Zerv SemVer Pep440 Convert Git GitProofs.
Open Scope N_scope.

(* the selected tag sits on a listed commit (an ancestor-or-self of HEAD; tags elsewhere never count), is the maximal valid tag of that
   commit, and no OTHER validly tagged commit reaches it - none lies between it and HEAD *)
Theorem c02_nearest_valid_tag : forall r f t c, topo_ok (g_commits r) = true -> latest_tag r f = Some (t, c) ->
  In c (map c_id (g_commits r)) /\
  max_tag (batch_parse f (tags_at r c)) = Some t /\
  forall c', In c' (map c_id (g_commits r)) -> c' <> c -> valid_at r f c' -> ~ reach r c' c.
Proof. exact nearest_valid_tag. Qed.

(* ... and among the valid tags of that commit none has a higher version *)
Theorem c02_highest_version : forall r f t c, latest_tag r f = Some (t, c) ->
  match batch_parse f (tags_at r c) with
  | BSem l => exists v, In (t, v) l /\ forall n' v', In (n', v') l -> semver_cmp v' v <> Gt
  | BPep l => exists v, In (t, v) l /\ forall n' v', In (n', v') l -> pep_cmp v' v <> Gt
  end.
Proof. exact chosen_tag_is_highest. Qed.

(* the candidates are exactly the tags of that commit which parse *)
Theorem c02_candidates : forall r c n, In n (tags_at r c) <-> In (n, c) (g_tags r).
Proof. exact tags_at_In. Qed.

(* a repository without any valid version tag on a reachable commit gets no version *)
Theorem c02_no_tag_no_version : forall r f, (forall c, In c (g_commits r) -> ~ valid_at r f (c_id c)) -> git_vars r f = None.
Proof. exact no_valid_tag_no_version. Qed.

(* the executable ancestor set the model uses for distance is exactly reachability through parent links; hence distance = number of
   commits reachable from HEAD (the listed ones) that are NOT reachable from the tagged commit *)
Theorem c02_ancestors_is_reachability : forall r c, topo_ok (g_commits r) = true -> forall x, In x (ancestors r c) <-> reach r c x.
Proof. exact ancestors_is_reach. Qed.

Theorem c02_distance : forall r c, topo_ok (g_commits r) = true ->
  distance r c = N.of_nat (length (filter (fun x => negb (mem (c_id x) (ancestors r c))) (g_commits r))) /\
  forall x, In x (g_commits r) -> (mem (c_id x) (ancestors r c) = true <-> reach r c (c_id x)).
Proof. exact distance_spec. Qed.

Check c02_nearest_valid_tag.

(* non-vacuity: main: A(v1.0.0) - B ; branch: A - C(v2.0.0) ; HEAD = merge M of B and C: the base is v2.0.0 on C, distance 2 (M and B) *)
Definition ex_repo : gitrepo :=
  {| g_commits := [ {| c_id := 0; c_parents := [1; 2]; c_time := 40; c_hash := [109] |};
                    {| c_id := 1; c_parents := [3]; c_time := 30; c_hash := [98] |};
                    {| c_id := 2; c_parents := [3]; c_time := 20; c_hash := [99] |};
                    {| c_id := 3; c_parents := []; c_time := 10; c_hash := [97] |} ];
     g_tags := [ ([118;49;46;48;46;48], 3); ([118;50;46;48;46;48], 2); ([118;57;46;48;46;48], 77) ];
     g_branch := Some [109]; g_dirty := false |}.
Example c02_ex : topo_ok (g_commits ex_repo) = true /\ latest_tag ex_repo FAuto = Some ([118;50;46;48;46;48], 2) /\ distance ex_repo 2 = 2.
Proof. vm_compute. repeat split. Qed.

Print Assumptions c02_nearest_valid_tag.
Print Assumptions c02_highest_version.
Print Assumptions c02_candidates.
Print Assumptions c02_no_tag_no_version.
Print Assumptions c02_ancestors_is_reachability.
Print Assumptions c02_distance.
