(* C17 - timestamp patterns are the UTC proleptic-Gregorian calendar fields.
   Model: Model/Calendar.v + Model/Timestamp.v.  Spec: Spec/CalendarSpec.v (leap rule, month lengths, next_day). *)
From Coq Require Import ZArith List.
From ZV Require Import Str Dec Calendar Timestamp CalendarSpec CalendarProofs TimestampProofs.
Import ListNotations.

(* the date function is THE Gregorian calendar: it starts at 1970-01-01, steps by next_day for every
   day in Z (no bound), always yields a valid date, and is the only function that does *)
Theorem c17_civil_epoch : civil_from_days 0 = (1970, 1, 1)%Z.
Proof. exact civil_epoch. Qed.

Theorem c17_civil_step : forall z : Z, civil_from_days (z + 1) = next_day (civil_from_days z).
Proof. exact civil_step. Qed.

Theorem c17_civil_valid : forall z : Z, valid_date (civil_from_days z).
Proof. exact civil_valid. Qed.

Theorem c17_civil_unique : forall f : Z -> Z * Z * Z,
  f 0%Z = (1970, 1, 1)%Z -> (forall z, f (z + 1)%Z = next_day (f z)) -> (forall z, valid_date (f z)) ->
  forall z, f z = civil_from_days z.
Proof. exact civil_unique. Qed.

(* hours, minutes, seconds are the base-60 digits of the second of the day *)
Theorem c17_time_of_day : forall s : Z, let sod := (s mod 86400)%Z in
  (0 <= sod / 3600 <= 23 /\ 0 <= (sod mod 3600) / 60 <= 59 /\ 0 <= sod mod 60 <= 59 /\
   s = (s / 86400) * 86400 + (sod / 3600) * 3600 + ((sod mod 3600) / 60) * 60 + sod mod 60)%Z.
Proof. exact tod_bounds. Qed.

(* the week number is the number of Mondays of the year up to the day (weeks start on Monday, week 0 before the first) *)
Theorem c17_week_counts_mondays : forall yd wd0 : Z, (0 <= yd <= 365)%Z -> (0 <= wd0 <= 6)%Z ->
  week_monday yd ((wd0 + yd) mod 7) = mondays_upto (Z.to_nat yd + 1) wd0.
Proof. exact week_counts_mondays. Qed.

Theorem c17_weekday_step : forall z : Z, wd_monday (z + 1) = ((wd_monday z + 1) mod 7)%Z.
Proof. exact wd_step. Qed.

Theorem c17_yday_step : forall y m d : Z, valid_date (y, m, d) ->
  let '(y', m', d') := next_day (y, m, d) in
  if (y' =? y)%Z then yday0 y' m' d' = (yday0 y m d + 1)%Z else (m', d') = (1, 1)%Z.
Proof. exact yday_step. Qed.

(* each of the fourteen single patterns resolves to its field (unpadded / two-wide / four-wide as listed),
   the two compact forms to the fixed-width concatenations, for every timestamp chrono can represent *)
Theorem c17_patterns : forall p t,
  In p [s_YYYY; s_YY; s_MM; s_0M; s_DD; s_0D; s_HH; s_0H; s_mm; s_0m; s_SS; s_0S; s_WW; s_0W] ->
  let d := dt_of_secs (u64_as_i64 t) in
  chrono_year_ok (dt_year d) = true ->
  resolve_timestamp p t = Some (field_of p d).
Proof. exact resolve_single. Qed.

Theorem c17_compact : forall t,
  let d := dt_of_secs (u64_as_i64 t) in
  chrono_year_ok (dt_year d) = true ->
  resolve_timestamp s_compact_date t = Some (fmt_Y (dt_year d) ++ pad2 (dt_month d) ++ pad2 (dt_day d)) /\
  resolve_timestamp s_compact_datetime t =
    Some (fmt_Y (dt_year d) ++ pad2 (dt_month d) ++ pad2 (dt_day d) ++ pad2 (dt_hour d) ++ pad2 (dt_min d) ++ pad2 (dt_sec d)).
Proof. exact resolve_compact. Qed.

Theorem c17_patterns_accepted : forallb is_valid_timestamp_pattern valid_patterns = true /\ length valid_patterns = 16%nat.
Proof. exact patterns_accepted. Qed.

Check c17_civil_step : forall z : Z, civil_from_days (z + 1) = next_day (civil_from_days z).

(* non-vacuity: 2024-03-15 14:10:45 UTC (the instant used in the repository's own tests) *)
Example c17_ex :
  resolve_timestamp s_compact_datetime 1710511845 = Some [50;48;50;52;48;51;49;53;49;52;49;48;52;53]%N /\
  resolve_timestamp s_WW 1710511845 = Some [49;49]%N /\
  chrono_year_ok (dt_year (dt_of_secs (u64_as_i64 1710511845))) = true.
Proof. vm_compute. repeat split. Qed.

Print Assumptions c17_civil_epoch.
Print Assumptions c17_civil_step.
Print Assumptions c17_civil_valid.
Print Assumptions c17_civil_unique.
Print Assumptions c17_time_of_day.
Print Assumptions c17_week_counts_mondays.
Print Assumptions c17_weekday_step.
Print Assumptions c17_yday_step.
Print Assumptions c17_patterns.
Print Assumptions c17_compact.
Print Assumptions c17_patterns_accepted.
