(* C11 - PEP 440 comparison is a total order on the key of the property text.
   Model: Model/Pep440.v (ordering.rs).  Spec: Spec/Pep440Spec.v (pep_key, pep_key_cmp). *)
From ZV Require Import Str Pep440 OrderFacts Pep440Spec Pep440Order SemVer SemVerProofs PepParseNf PepAccept Findings.

(* the comparison is the lexicographic order on (epoch, release without trailing zeros, pre phase and number
   with none highest, post with none lowest, dev with none highest, local with none lowest) *)
Theorem c11_is_key_order : forall a b, pep_cmp a b = pep_key_cmp (pep_key a) (pep_key b).
Proof. exact pep_cmp_key. Qed.

(* and that key comparison is a total order *)
Theorem c11_key_order_good : good_cmp pep_key_cmp.
Proof. exact pep_key_cmp_good. Qed.

Theorem c11_eq_iff_key : forall a b, pep_cmp a b = Eq <-> pep_key a = pep_key b.
Proof. exact pep_cmp_eq. Qed.

Theorem c11_eqb_is_cmp : forall a b, pep_eqb a b = true <-> pep_cmp a b = Eq.
Proof. intros a b. unfold pep_eqb. destruct (pep_cmp a b); split; congruence. Qed.

Theorem c11_antisym : forall a b, pep_cmp b a = CompOpp (pep_cmp a b).
Proof. exact pep_cmp_opp. Qed.

Theorem c11_trans : forall a b c, pep_cmp a b = Lt -> pep_cmp b c = Lt -> pep_cmp a c = Lt.
Proof. exact pep_cmp_trans. Qed.

(* trailing zero release numbers, and the presence of an explicit 0 for an implicit number, do not matter *)
Theorem c11_trailing_zeros : forall l, strip_zeros (l ++ [0]) = strip_zeros l.
Proof.
  induction l as [|x l IH]; [reflexivity|]. cbn [app]. rewrite !strip_cons, IH. reflexivity.
Qed.

(* for one release: pre-releases < dev release < final < post releases *)
Definition mkp (rel : list N) (pre : option (label * N)) (post dev : option N) : pep :=
  {| p_epoch := 0; p_release := rel;
     p_pre_label := option_map fst pre; p_pre_num := option_map snd pre;
     p_post_label := match post with Some _ => true | None => false end; p_post_num := post;
     p_dev_label := match dev with Some _ => true | None => false end; p_dev_num := dev;
     p_local := None |}.

Theorem c11_phase_chain : forall rel l n d p,
  pep_cmp (mkp rel (Some (l, n)) None None) (mkp rel None None (Some d)) = Lt /\
  pep_cmp (mkp rel None None (Some d)) (mkp rel None None None) = Lt /\
  pep_cmp (mkp rel None None None) (mkp rel None (Some p) None) = Lt.
Proof.
  intros rel l n d p. rewrite !pep_cmp_key. unfold pep_key_cmp, pep_key, pair_cmp, then_with', mkp. cbn.
  rewrite !(gc_refl _ (lex_good N.compare N_good)). repeat split.
Qed.

(* the greatest PEP 440 tag on a commit is well defined *)
Theorem c11_max_well_defined : forall l cur,
  In (max_by_last pep_cmp cur l) (cur :: l) /\ forall x, In x (cur :: l) -> pep_cmp x (max_by_last pep_cmp cur l) <> Gt.
Proof.
  intros l cur.
  assert (R : forall x, pep_cmp x x <> Gt).
  { intros x. rewrite pep_cmp_key, (gc_refl _ pep_key_cmp_good). discriminate. }
  assert (O : forall x y, pep_cmp x y = Gt -> pep_cmp y x <> Gt).
  { intros x y H. rewrite (pep_cmp_opp x y), H. discriminate. }
  destruct (max_by_last_spec pep_cmp pep_cmp_le_trans R O l cur) as [H1 [H2 H3]].
  split; [exact H1|]. intros x [Hx|Hx]; [subst; exact H2|apply H3, Hx].
Qed.

Check c11_is_key_order : forall a b, pep_cmp a b = pep_key_cmp (pep_key a) (pep_key b).

(* non-vacuity: 1.0a1 < 1.0.dev1 < 1.0 < 1.0.post0 and 1.0 == 1.0.0 *)
Example c11_ex :
  pep_cmp (mkp [1;0] (Some (Alpha, 1)) None None) (mkp [1;0] None None (Some 1)) = Lt /\
  pep_cmp (mkp [1;0] None None None) (mkp [1;0;0] None None None) = Eq.
Proof. vm_compute. split; reflexivity. Qed.

(* SPELLING INDEPENDENCE through the normal form: two accepted strings that zerv normalises to the same text are parsed to the SAME value -
   whatever their case, separators, label spellings, leading zeros, v prefix or implicit numbers - hence compare equal (and the parser
   never distinguishes what the printer identifies) *)
Theorem c11_same_normal_form_same_value : forall s1 s2 v1 v2, pep_parse s1 = Some v1 -> pep_parse s2 = Some v2 -> pep_print v1 = pep_print v2 -> v1 = v2.
Proof. exact same_normal_form_same_value. Qed.
Theorem c11_same_normal_form_equal : forall s1 s2 v1 v2, pep_parse s1 = Some v1 -> pep_parse s2 = Some v2 -> pep_print v1 = pep_print v2 -> pep_cmp v1 v2 = Eq.
Proof. exact same_normal_form_equal. Qed.

(* ... and the v / V prefix is irrelevant: an accepted string parses to the same value with or without it *)
Theorem c11_v_prefix_irrelevant : forall c s v, ascii_lower c = 118%N ->
  (pep_parse (c :: s) = Some v <-> (exists d t, s = d :: t /\ is_ascii_digit d = true) /\ pep_parse s = Some v).
Proof. exact pep_v_prefix_irrelevant. Qed.

(* KNOWN FINDING of this property, as the model exhibits it (the check prints KNOWN-FINDING for the class; see known_findings.json) *)
Example c11_finding_c11_oversize_local :
match pep_parse [49;46;48;43;52;50;57;52;57;54;55;50;57;54]%N, pep_parse [49;46;48;43;49;48;48;48;48;48;48;48;48;48;48]%N with
  | Some a, Some b => pep_cmp a b = Gt
  | _, _ => False
  end.
Proof. exact finding_c11_oversize_local. Qed.

Print Assumptions c11_is_key_order.
Print Assumptions c11_key_order_good.
Print Assumptions c11_eq_iff_key.
Print Assumptions c11_eqb_is_cmp.
Print Assumptions c11_antisym.
Print Assumptions c11_trans.
Print Assumptions c11_trailing_zeros.
Print Assumptions c11_phase_chain.
Print Assumptions c11_max_well_defined.
Print Assumptions c11_same_normal_form_same_value.
Print Assumptions c11_same_normal_form_equal.
Print Assumptions c11_v_prefix_irrelevant.
