(* C18 - the Python API is a faithful wrapper of the CLI.
   Gen/PyApiGen.v is regenerated on every run from python/zerv/__init__.py (AST) and from `zerv <sub> --help` of the binary built from
   the working tree; the parity facts are decided over those finite tables by computation, _extend_args is modelled and proved. *)
From Coq Require Import ZArith.
From ZV Require Import Str Dec PyApi PyApiGen PyApiProofs.
Open Scope N_scope.

(* _extend_args appends, per table entry in order: nothing for None / False, the flag for True, the flag and str(value) otherwise *)
Theorem c18_extend_args : forall flags args, extend_args args flags = args ++ flat_map arg_of flags.
Proof. exact extend_args_spec. Qed.

Theorem c18_none_false_add_nothing : forall args flags,
  (forall fv, In fv flags -> snd fv = PNone \/ snd fv = PBool false) -> extend_args args flags = args.
Proof. exact none_false_add_nothing. Qed.

(* the source still contains exactly that loop *)
Theorem c18_extend_args_source : extend_args_source_matches = true.
Proof. exact extend_args_is_the_modelled_loop. Qed.

(* every (flag, keyword) entry of the four tables: the keyword is declared in the signature, the flag spelling denotes an option the
   sub-command accepts, that option is the one named like the keyword (repo_path -> directory), it takes a value exactly when the
   keyword is not a bool; no flag or keyword occurs twice; every declared keyword is used *)
Theorem c18_parity :
  parity_ok py_version_keywords py_version_table clap_version_flags py_version_passes_stdin = true /\
  parity_ok py_flow_keywords py_flow_table clap_flow_flags py_flow_passes_stdin = true /\
  parity_ok py_check_keywords py_check_table clap_check_flags py_check_passes_stdin = true /\
  parity_ok py_render_keywords py_render_table clap_render_flags py_render_passes_stdin = true.
Proof. exact (conj parity_version (conj parity_flow (conj parity_check parity_render))). Qed.

Theorem c18_parity_entry : forall keywords table clap st flag kw,
  parity_ok keywords table clap st = true -> In (flag, kw) table ->
  exists is_bool long short arity,
    In (kw, is_bool) keywords /\ In (long, short, arity) clap /\
    (flag = [45;45] ++ long \/ exists s, short = Some s /\ flag = 45 :: s) /\
    long = long_of_kw kw /\ (if is_bool then arity = 0 else arity <> 0).
Proof. exact parity_entry. Qed.

Theorem c18_positional :
  py_check_base = [(false, [99;104;101;99;107]); (true, [118;101;114;115;105;111;110])] /\ clap_check_positional = true /\
  py_render_base = [(false, [114;101;110;100;101;114]); (true, [118;101;114;115;105;111;110])] /\ clap_render_positional = true /\
  py_version_base = [(false, [118;101;114;115;105;111;110])] /\ py_flow_base = [(false, [102;108;111;119])].
Proof. exact positional_parity. Qed.

Check c18_parity.

(* non-vacuity: zerv.version(major=0, dirty=True, clean=False) builds: version --dirty --major 0 *)
Example c18_ex : py_argv py_version_base py_version_table []
  [([109;97;106;111;114], PInt 0); ([100;105;114;116;121], PBool true); ([99;108;101;97;110], PBool false)]
  = [[118;101;114;115;105;111;110]; [45;45;100;105;114;116;121]; [45;45;109;97;106;111;114]; [48]].
Proof. vm_compute. reflexivity. Qed.

Print Assumptions c18_extend_args.
Print Assumptions c18_none_false_add_nothing.
Print Assumptions c18_extend_args_source.
Print Assumptions c18_parity.
Print Assumptions c18_parity_entry.
Print Assumptions c18_positional.
