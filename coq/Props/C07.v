(* C07 - format conversion.  Model: Model/Convert.v (to_zerv.rs x2, render pipeline) + Model/Render.v. *)
From ZV Require Import Str Zerv Render Convert ConvertProofs SemVer Pep440 Pep440Nf PepRoundTrip SemVerRoundTrip OutputGrammar RegexSrc PepParseNf PepSemverRound PepOutNf SemVerExtRound Findings.
From RelationAlgebra Require regex.

(* SemVer -> Zerv always succeeds: the schema pushes of the PreReleaseProcessor never violate the placement rules,
   so the expect() in `From<SemVer> for Zerv` is unreachable - for every SemVer value (any identifier list) *)
Theorem c07_semver_to_zerv_total : forall v : semver, zerv_of_semver v <> None.
Proof. exact zerv_of_semver_total. Qed.

(* hence parsing any string as SemVer / auto never ends in the conversion panic *)
Theorem c07_parse_version_semver_no_panic : forall s, parse_version FSemver s <> OPanic.
Proof.
  intros s. unfold parse_version. destruct (semver_parse s) as [v|]; [|discriminate].
  pose proof (zerv_of_semver_total v) as H. destruct (zerv_of_semver v); [discriminate|congruence].
Qed.

Theorem c07_parse_version_auto_no_panic : forall s, parse_version FAuto s <> OPanic.
Proof.
  intros s. unfold parse_version. destruct (semver_parse s) as [v|].
  - pose proof (zerv_of_semver_total v) as H. destruct (zerv_of_semver v); [discriminate|congruence].
  - destruct (Pep440.pep_parse s); discriminate.
Qed.

(* PEP 440 -> Zerv -> PEP 440 is the identity on every value in normal form with numbers below 2^32 (nothing dropped, reordered or
   replaced); [pep_nf_b] is the executable form of that hypothesis, evaluated on every value the parser returns in the correspondence runs *)
Theorem c07_pep440_roundtrip : forall p, pep_nf p -> pep_of_zerv (zerv_of_pep p) = Some p.
Proof. exact pep_roundtrip. Qed.

Theorem c07_pep440_roundtrip_test_sound : forall p, pep_nf_b p = true -> pep_of_zerv (zerv_of_pep p) = Some p.
Proof. exact pep_roundtrip_b. Qed.

(* ... in particular on EVERY string the PEP 440 parser accepts: nothing the parser can return is changed by PEP 440 -> Zerv -> PEP 440 *)
Theorem c07_every_parsed_pep440_roundtrips : forall s v, pep_parse s = Some v -> pep_of_zerv (zerv_of_pep v) = Some v.
Proof. exact pep_parsed_roundtrip. Qed.

(* `zerv render` PEP 440 -> PEP 440 prints the normal form of the value it parsed and never fails on an accepted string; rendering that
   output again returns it unchanged (zerv reads back its own PEP 440 versions unchanged) *)
Theorem c07_render_pep440_is_normal_form : forall pre s v, pep_parse s = Some v -> render_cmd FPep440 FPep440 pre s = OOk (pre ++ pep_print v).
Proof. exact render_pep440_normal_form. Qed.

Theorem c07_render_pep440_fixed_point : forall pre s t, render_cmd FPep440 FPep440 pre s = OOk t ->
  exists v, pep_parse s = Some v /\ t = pre ++ pep_print v /\ render_cmd FPep440 FPep440 [] (pep_print v) = OOk (pep_print v).
Proof. exact render_pep440_fixed_point. Qed.

(* ANY PEP 440 VERSION WITH AT MOST THREE RELEASE NUMBERS converts to SemVer and back to an EQUAL PEP 440 version: for every value in
   normal form (hence for every value the parser returns) whose local string segments do not read as numbers, the SemVer value is the
   canonical shape of its fields (missing release numbers read as 0), zerv's SemVer parser reads the printed SemVer back as that value,
   SemVer -> Zerv -> SemVer returns it unchanged, and Zerv -> PEP 440 yields a version that compares equal to the original *)
Theorem c07_pep440_via_semver_equal : forall p, pep_nf p -> (length (p_release p) <= 3)%nat -> local_plain p ->
  let sv := semver_of_zerv (zerv_of_pep p) in
  sv = canon_semver (r0 p) (r1 p) (r2 p) (f_epoch p) (f_pre p) (p_post_num p) (p_dev_num p) (f_build p) /\
  semver_parse (semver_print sv) = Some sv /\
  exists z p', zerv_of_semver sv = Some z /\ semver_of_zerv z = sv /\ pep_of_zerv z = Some p' /\ pep_cmp p p' = Eq.
Proof. exact pep_semver_pep_equal. Qed.

Theorem c07_parsed_pep440_via_semver_equal : forall s p, pep_parse s = Some p -> (length (p_release p) <= 3)%nat -> local_plain p ->
  exists z p', zerv_of_semver (semver_of_zerv (zerv_of_pep p)) = Some z /\ pep_of_zerv z = Some p' /\ pep_cmp p p' = Eq.
Proof.
  intros s p H L Q. destruct (pep_semver_pep_equal p (pep_parse_nf s p H) L Q) as [_ [_ [z [p' [A [_ [B C]]]]]]]. exists z, p'. repeat split; assumption.
Qed.

(* EVERY PEP 440 RENDERING is a fixed point of re-conversion: whatever Zerv object it was rendered from, PEP 440 -> Zerv -> PEP 440 returns
   it unchanged, and `zerv render` of the printed string (pep440 -> pep440) prints the same string *)
Theorem c07_every_pep440_rendering_fixed_point : forall z p, pep_of_zerv z = Some p ->
  pep_of_zerv (zerv_of_pep p) = Some p /\ render_cmd FPep440 FPep440 [] (pep_print p) = OOk (pep_print p).
Proof.
  intros z p H. split; [apply (pep_rendering_fixed_point z p H)|]. apply (render_pep440_normal_form [] (pep_print p) p), (pep_parse_back_all z p H).
Qed.

(* THE CANONICAL SHAPE  X.Y.Z[-[epoch.E.][alpha|beta|rc.N.][post.P.][dev.D]][+ids]  (every subset of the four parts, every label):
   SemVer -> Zerv gives the expected object, Zerv -> SemVer gives back exactly the same value (numbers below 2^64) *)
Theorem c07_canonical_semver_unchanged : forall a b c e pl po pd bl,
  u64 a -> u64 b -> u64 c -> opt_u64 e -> (match pl with Some (_, n) => u64 n | None => True end) -> opt_u64 po -> opt_u64 pd ->
  (match bl with Some l => l <> [] /\ Forall ident_nf l | None => True end) ->
  exists z, zerv_of_semver (canon_semver a b c e pl po pd bl) = Some z /\ semver_of_zerv z = canon_semver a b c e pl po pd bl.
Proof. exact semver_canonical_roundtrip. Qed.

(* ... to PEP 440 it is  [E!]X.Y.Z[{a|b|rc}N][.postP][.devD][+ids]  (numbers below 2^32) *)
Theorem c07_canonical_to_pep440 : forall a b c e pl po pd bl,
  u32 a -> u32 b -> u32 c -> opt_u32_ok e -> (match pl with Some (_, n) => u32 n | None => True end) -> opt_u32_ok po -> opt_u32_ok pd ->
  (match bl with Some l => l <> [] /\ Forall ident_pep_nf l | None => True end) ->
  pep_of_zerv (canon_zerv a b c e pl po pd bl) = Some (canon_pep a b c e pl po pd bl).
Proof. exact canon_to_pep. Qed.

(* ... and from that PEP 440 value back to the original SemVer (an explicit epoch 0 has no PEP 440 counterpart) *)
Theorem c07_canonical_back_to_semver : forall a b c e pl po pd bl,
  u64 a -> u64 b -> u64 c -> opt_u64 e -> e <> Some 0%N -> (match pl with Some (_, n) => u64 n | None => True end) -> opt_u64 po -> opt_u64 pd ->
  (match bl with Some l => l <> [] /\ Forall ident_nf l | None => True end) ->
  semver_of_zerv (zerv_of_pep (canon_pep a b c e pl po pd bl)) = canon_semver a b c e pl po pd bl.
Proof. exact pep_back_to_semver. Qed.

(* every rendering that `zerv render` prints is a member of the target grammar (re-convertible) *)
Theorem c07_render_semver_in_grammar : forall inf pre s t, render_cmd inf FSemver pre s = OOk t ->
  exists v, t = pre ++ v /\ regex.lang semver_spec (map semver_atom_of v).
Proof. exact render_semver_in_grammar. Qed.
Theorem c07_render_pep440_in_grammar : forall inf pre s t, render_cmd inf FPep440 pre s = OOk t ->
  exists v, t = pre ++ v /\ regex.lang pep440_spec (map pep440_atom_of v).
Proof. exact render_pep440_in_grammar. Qed.

(* THE SEMVER RENDERING OF EVERY PEP 440 VERSION IS A FIXED POINT - any number of release numbers: the numbers beyond the third become leading
   numeric pre-release identifiers  X.Y.Z-n4.n5...[epoch.E.][label.N.][post.P.][dev.D][+ids]  (the canonical shape extended by such a prefix);
   zerv's own SemVer parser reads the printed text back to the same value, SemVer -> Zerv -> SemVer returns it unchanged.
   (an all-digit local segment of 2^32 or more, kept as text by PEP 440, is read as a number by SemVer when it fits u64: `ident_sem` - the rendering is a fixed point all the same) *)
Theorem c07_extended_canonical_semver_unchanged : forall xs a b c e pl po pd bl,
  Forall u64 xs -> u64 a -> u64 b -> u64 c -> opt_u64 e -> (match pl with Some (_, n) => u64 n | None => True end) -> opt_u64 po -> opt_u64 pd ->
  (match bl with Some l => l <> [] /\ Forall ident_nf l | None => True end) ->
  exists z, zerv_of_semver (ext_semver xs a b c e pl po pd bl) = Some z /\ semver_of_zerv z = ext_semver xs a b c e pl po pd bl.
Proof. exact ext_roundtrip. Qed.

Theorem c07_semver_rendering_of_pep440_fixed_point : forall p, pep_nf p ->
  let sv := semver_of_zerv (zerv_of_pep p) in
  sv = ext_semver (skipn 3 (p_release p)) (r0 p) (r1 p) (r2 p) (f_epoch p) (f_pre p) (p_post_num p) (p_dev_num p) (option_map (map ident_sem) (p_local p)) /\
  semver_parse (semver_print sv) = Some sv /\
  exists z, zerv_of_semver sv = Some z /\ semver_of_zerv z = sv.
Proof. exact pep_semver_rendering_fixed_point_all. Qed.

(* at the command, for EVERY accepted PEP 440 string, with the input format given or auto-detected *)
Theorem c07_render_pep440_to_semver_fixed_point : forall s p, pep_parse s = Some p ->
  exists t, render_cmd FPep440 FSemver [] s = OOk t /\ render_cmd FSemver FSemver [] t = OOk t /\ render_cmd FAuto FSemver [] t = OOk t.
Proof. exact render_pep_to_semver_fixed_point_all. Qed.

(* non-vacuity: 1!1.2.3.4.5rc6.dev7+ab  ->  1.2.3-4.5.epoch.1.rc.6.dev.7+ab  ->  itself *)
Example c07_ex_four_release_numbers :
  render_cmd FPep440 FSemver [] [49;33;49;46;50;46;51;46;52;46;53;114;99;54;46;100;101;118;55;43;97;98]%N
    = OOk [49;46;50;46;51;45;52;46;53;46;101;112;111;99;104;46;49;46;114;99;46;54;46;100;101;118;46;55;43;97;98]%N /\
  render_cmd FAuto FSemver [] [49;46;50;46;51;45;52;46;53;46;101;112;111;99;104;46;49;46;114;99;46;54;46;100;101;118;46;55;43;97;98]%N
    = OOk [49;46;50;46;51;45;52;46;53;46;101;112;111;99;104;46;49;46;114;99;46;54;46;100;101;118;46;55;43;97;98]%N.
Proof. vm_compute. split; reflexivity. Qed.

(* non-vacuity: the input that used to panic, and a canonical round trip *)
Example c07_ex_former_panic :
  match zerv_of_semver {| sv_major := 1; sv_minor := 0; sv_patch := 0;
                          sv_pre := Some [IStr s_epoch; IStr s_post; IStr s_epoch]; sv_build := None |} with
  | Some z => s_extra (z_schema z) = [CVar Epoch; CVar Post; CStr s_epoch]
  | None => False
  end.
Proof. vm_compute. reflexivity. Qed.

Example c07_ex_roundtrip :
  render_cmd FSemver FPep440 [] [49;46;50;46;51;45;101;112;111;99;104;46;50;46;114;99;46;49;46;112;111;115;116;46;52;43;97;98]%N
  = OOk [50;33;49;46;50;46;51;114;99;49;46;112;111;115;116;52;43;97;98]%N.   (* 1.2.3-epoch.2.rc.1.post.4+ab -> 2!1.2.3rc1.post4+ab *)
Proof. vm_compute. reflexivity. Qed.

(* KNOWN FINDING of this property, as the model exhibits it (the check prints KNOWN-FINDING for the class; see known_findings.json) *)
Example c07_finding_c07_oversize_to_pep440 :
render_cmd FSemver FPep440 [] [49;46;50;46;51;45;97;108;112;104;97;46;53;48;48;48;48;48;48;48;48;48]%N = OOk [49;46;50;46;51;97;48]%N /\
  render_cmd FSemver FPep440 [] [53;48;48;48;48;48;48;48;48;48;46;49;46;50]%N = OOk [49;46;50;43;53;48;48;48;48;48;48;48;48;48]%N.
Proof. exact finding_c07_oversize_to_pep440. Qed.

Print Assumptions c07_semver_to_zerv_total.
Print Assumptions c07_parse_version_semver_no_panic.
Print Assumptions c07_parse_version_auto_no_panic.
Print Assumptions c07_pep440_roundtrip.
Print Assumptions c07_pep440_roundtrip_test_sound.
Print Assumptions c07_render_semver_in_grammar.
Print Assumptions c07_render_pep440_in_grammar.
Print Assumptions c07_canonical_semver_unchanged.
Print Assumptions c07_canonical_to_pep440.
Print Assumptions c07_canonical_back_to_semver.
Print Assumptions c07_every_parsed_pep440_roundtrips.
Print Assumptions c07_render_pep440_is_normal_form.
Print Assumptions c07_render_pep440_fixed_point.
Print Assumptions c07_pep440_via_semver_equal.
Print Assumptions c07_parsed_pep440_via_semver_equal.
Print Assumptions c07_every_pep440_rendering_fixed_point.
Print Assumptions c07_extended_canonical_semver_unchanged.
Print Assumptions c07_semver_rendering_of_pep440_fixed_point.
Print Assumptions c07_render_pep440_to_semver_fixed_point.

(* THE TIE OF THE MODEL'S CONSTANT TABLES TO THE SOURCE: Gen/TablesSrc.v is regenerated from /repo by tools/tables2coq.py on every run *)
From ZV Require Import Timestamp Render Convert TablesSrc TablesTie.
Theorem c07_label_spellings_as_in_source : forall s, label_try s = lookup_label src_label_alternatives (map ascii_lower s).
Proof. exact label_try_as_source. Qed.
Print Assumptions c07_label_spellings_as_in_source.
