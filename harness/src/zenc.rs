//! Flat token encoding of Zerv objects shared with the OCaml driver (see ocaml/zenc.ml).
use crate::unhex;
use zerv::version::zerv::bump::precedence::{Precedence, PrecedenceOrder};
use zerv::version::zerv::core::{PreReleaseLabel, PreReleaseVar};
use zerv::version::zerv::{Component, Var, Zerv, ZervSchema, ZervVars};

pub struct Cur<'a> {
    pub f: &'a [&'a str],
    pub i: usize,
}

impl<'a> Cur<'a> {
    pub fn next(&mut self) -> Result<&'a str, String> {
        let t = self.f.get(self.i).ok_or("truncated request")?;
        self.i += 1;
        Ok(t)
    }
    pub fn num(&mut self) -> Result<Option<u64>, String> {
        let t = self.next()?;
        if t == "~" { Ok(None) } else { t.parse::<u64>().map(Some).map_err(|e| format!("{t}: {e}")) }
    }
    pub fn usize(&mut self) -> Result<usize, String> {
        self.next()?.parse::<usize>().map_err(|e| e.to_string())
    }
    pub fn ostr(&mut self) -> Result<Option<String>, String> {
        let t = self.next()?;
        if t == "~" { Ok(None) } else { unhex(t).map(Some) }
    }
    pub fn obool(&mut self) -> Result<Option<bool>, String> {
        match self.next()? {
            "~" => Ok(None),
            "0" => Ok(Some(false)),
            "1" => Ok(Some(true)),
            o => Err(format!("bool {o}")),
        }
    }
}

pub fn var_of(name: &str) -> Result<Var, String> {
    Ok(match name {
        "Major" => Var::Major,
        "Minor" => Var::Minor,
        "Patch" => Var::Patch,
        "Epoch" => Var::Epoch,
        "PreRelease" => Var::PreRelease,
        "Post" => Var::Post,
        "Dev" => Var::Dev,
        "Distance" => Var::Distance,
        "Dirty" => Var::Dirty,
        "BumpedBranch" => Var::BumpedBranch,
        "BumpedCommitHash" => Var::BumpedCommitHash,
        "BumpedCommitHashShort" => Var::BumpedCommitHashShort,
        "BumpedTimestamp" => Var::BumpedTimestamp,
        "LastBranch" => Var::LastBranch,
        "LastCommitHash" => Var::LastCommitHash,
        "LastCommitHashShort" => Var::LastCommitHashShort,
        "LastTimestamp" => Var::LastTimestamp,
        o => return Err(format!("var {o}")),
    })
}

pub fn comp(c: &mut Cur) -> Result<Component, String> {
    let t = c.next()?;
    let (k, v) = t.split_at(2);
    Ok(match k {
        "s:" => Component::Str(unhex(v)?),
        "u:" => Component::UInt(v.parse::<u64>().map_err(|e| e.to_string())?),
        "v:" => Component::Var(var_of(v)?),
        "c:" => Component::Var(Var::Custom(unhex(v)?)),
        "t:" => Component::Var(Var::Timestamp(unhex(v)?)),
        o => return Err(format!("component {o}")),
    })
}

pub fn comps(c: &mut Cur) -> Result<Vec<Component>, String> {
    let n = c.usize()?;
    (0..n).map(|_| comp(c)).collect()
}

pub fn prec_of(name: &str) -> Result<Precedence, String> {
    Ok(match name {
        "Epoch" => Precedence::Epoch,
        "Major" => Precedence::Major,
        "Minor" => Precedence::Minor,
        "Patch" => Precedence::Patch,
        "Core" => Precedence::Core,
        "PreReleaseLabel" => Precedence::PreReleaseLabel,
        "PreReleaseNum" => Precedence::PreReleaseNum,
        "Post" => Precedence::Post,
        "Dev" => Precedence::Dev,
        "ExtraCore" => Precedence::ExtraCore,
        "Build" => Precedence::Build,
        o => return Err(format!("precedence {o}")),
    })
}

pub fn json(c: &mut Cur) -> Result<serde_json::Value, String> {
    let t = c.next()?;
    use serde_json::Value;
    Ok(match t {
        "jn" => Value::Null,
        "jt" => Value::Bool(true),
        "jf" => Value::Bool(false),
        _ if t.starts_with("j#") => serde_json::from_str::<Value>(&unhex(&t[2..])?).map_err(|e| e.to_string())?,
        _ if t.starts_with("j$") => Value::String(unhex(&t[2..])?),
        _ if t.starts_with("ja") => {
            let n: usize = t[2..].parse().map_err(|_| "ja")?;
            Value::Array((0..n).map(|_| json(c)).collect::<Result<Vec<_>, _>>()?)
        }
        _ if t.starts_with("jo") => {
            let n: usize = t[2..].parse().map_err(|_| "jo")?;
            let mut m = serde_json::Map::new();
            for _ in 0..n {
                let k = unhex(c.next()?)?;
                let v = json(c)?;
                m.insert(k, v);
            }
            Value::Object(m)
        }
        o => return Err(format!("json {o}")),
    })
}

pub fn vars(c: &mut Cur) -> Result<ZervVars, String> {
    let major = c.num()?;
    let minor = c.num()?;
    let patch = c.num()?;
    let epoch = c.num()?;
    let pre = {
        let t = c.next()?;
        if t == "~" {
            None
        } else {
            let (l, n) = t.split_once('/').ok_or("pre")?;
            let label = match l {
                "a" => PreReleaseLabel::Alpha,
                "b" => PreReleaseLabel::Beta,
                "rc" => PreReleaseLabel::Rc,
                o => return Err(format!("label {o}")),
            };
            let number = if n == "~" { None } else { Some(n.parse::<u64>().map_err(|e| e.to_string())?) };
            Some(PreReleaseVar { label, number })
        }
    };
    let post = c.num()?;
    let dev = c.num()?;
    let distance = c.num()?;
    let dirty = c.obool()?;
    let bumped_branch = c.ostr()?;
    let bumped_commit_hash = c.ostr()?;
    let bumped_timestamp = c.num()?;
    let last_branch = c.ostr()?;
    let last_commit_hash = c.ostr()?;
    let last_timestamp = c.num()?;
    let last_tag_version = c.ostr()?;
    let custom = json(c)?;
    Ok(ZervVars {
        major, minor, patch, epoch, pre_release: pre, post, dev, distance, dirty, bumped_branch, bumped_commit_hash,
        bumped_timestamp, last_branch, last_commit_hash, last_timestamp, last_tag_version, custom,
    })
}

pub struct RawSchema {
    pub core: Vec<Component>,
    pub extra: Vec<Component>,
    pub build: Vec<Component>,
    pub prec: Vec<Precedence>,
}

pub fn raw_schema(c: &mut Cur) -> Result<RawSchema, String> {
    let core = comps(c)?;
    let extra = comps(c)?;
    let build = comps(c)?;
    let n = c.usize()?;
    let prec = (0..n).map(|_| prec_of(c.next()?)).collect::<Result<Vec<_>, _>>()?;
    Ok(RawSchema { core, extra, build, prec })
}

/// Z <schema> <vars> ; Err(None) = the schema is rejected by validation
pub fn zerv(c: &mut Cur) -> Result<Result<Zerv, String>, String> {
    if c.next()? != "Z" {
        return Err("expected Z".into());
    }
    let rs = raw_schema(c)?;
    let vs = vars(c)?;
    match ZervSchema::new_with_precedence(rs.core, rs.extra, rs.build, PrecedenceOrder::from_precedences(rs.prec)) {
        Ok(s) => Ok(Zerv::new(s, vs).map_err(|e| e.to_string())),
        Err(e) => Ok(Err(e.to_string())),
    }
}

// ---------------------------------------------------------------- encoding (Zerv -> tokens)
use crate::hex;

fn on(o: &Option<u64>) -> String {
    match o {
        Some(n) => n.to_string(),
        None => "~".into(),
    }
}
fn os(o: &Option<String>) -> String {
    match o {
        Some(s) => hex(s),
        None => "~".into(),
    }
}

pub fn enc_json(v: &serde_json::Value, out: &mut Vec<String>) {
    use serde_json::Value;
    match v {
        Value::Null => out.push("jn".into()),
        Value::Bool(true) => out.push("jt".into()),
        Value::Bool(false) => out.push("jf".into()),
        Value::Number(n) => out.push(format!("j#{}", hex(&n.to_string()))),
        Value::String(s) => out.push(format!("j${}", hex(s))),
        Value::Array(a) => {
            out.push(format!("ja{}", a.len()));
            for x in a {
                enc_json(x, out);
            }
        }
        Value::Object(m) => {
            out.push(format!("jo{}", m.len()));
            for (k, x) in m {
                out.push(hex(k));
                enc_json(x, out);
            }
        }
    }
}

pub fn enc_comp(c: &Component) -> String {
    match c {
        Component::Str(s) => format!("s:{}", hex(s)),
        Component::UInt(n) => format!("u:{n}"),
        Component::Var(Var::Custom(n)) => format!("c:{}", hex(n)),
        Component::Var(Var::Timestamp(p)) => format!("t:{}", hex(p)),
        Component::Var(v) => format!("v:{v:?}"),
    }
}

pub fn enc_zerv(z: &Zerv) -> String {
    let mut out: Vec<String> = vec!["Z".into()];
    for part in [z.schema.core(), z.schema.extra_core(), z.schema.build()] {
        out.push(part.len().to_string());
        for c in part {
            out.push(enc_comp(c));
        }
    }
    let prec: Vec<String> = z.schema.precedence_order().iter().map(|p| format!("{p:?}")).collect();
    out.push(prec.len().to_string());
    out.extend(prec);
    let v = &z.vars;
    out.push(on(&v.major));
    out.push(on(&v.minor));
    out.push(on(&v.patch));
    out.push(on(&v.epoch));
    out.push(match &v.pre_release {
        None => "~".into(),
        Some(p) => format!(
            "{}/{}",
            match p.label {
                PreReleaseLabel::Alpha => "a",
                PreReleaseLabel::Beta => "b",
                PreReleaseLabel::Rc => "rc",
            },
            on(&p.number)
        ),
    });
    out.push(on(&v.post));
    out.push(on(&v.dev));
    out.push(on(&v.distance));
    out.push(match v.dirty {
        None => "~".into(),
        Some(true) => "1".into(),
        Some(false) => "0".into(),
    });
    out.push(os(&v.bumped_branch));
    out.push(os(&v.bumped_commit_hash));
    out.push(on(&v.bumped_timestamp));
    out.push(os(&v.last_branch));
    out.push(os(&v.last_commit_hash));
    out.push(on(&v.last_timestamp));
    out.push(os(&v.last_tag_version));
    enc_json(&v.custom, &mut out);
    out.join(" ")
}

/// RON text of an object whose schema need not be valid (written by hand; vars through the ron serializer)
pub fn raw_ron(rs: &RawSchema, vs: &ZervVars) -> String {
    fn comp_ron(c: &Component) -> String {
        match c {
            Component::Str(s) => format!("str({})", ron::to_string(s).unwrap()),
            Component::UInt(n) => format!("uint({n})"),
            Component::Var(Var::Custom(n)) => format!("var(custom({}))", ron::to_string(n).unwrap()),
            Component::Var(Var::Timestamp(p)) => format!("var(ts({}))", ron::to_string(p).unwrap()),
            Component::Var(v) => format!("var({v:?})"),
        }
    }
    let list = |l: &Vec<Component>| l.iter().map(comp_ron).collect::<Vec<_>>().join(", ");
    let prec = rs.prec.iter().map(|p| format!("{p:?}")).collect::<Vec<_>>().join(", ");
    format!(
        "(schema: (core: [{}], extra_core: [{}], build: [{}], precedence_order: [{}]), vars: {})",
        list(&rs.core),
        list(&rs.extra),
        list(&rs.build),
        prec,
        ron::to_string(vs).unwrap()
    )
}
