//! Flat token encoding of Zerv objects shared with the OCaml driver (see ocaml/zenc.ml).
use crate::unhex;
use zerv::version::zerv::bump::precedence::{Precedence, PrecedenceOrder};
use zerv::version::zerv::core::{PreReleaseLabel, PreReleaseVar};
use zerv::version::zerv::{Component, Var, Zerv, ZervSchema, ZervVars};

pub struct Cur<'a> {
    pub f: &'a [&'a str],
    pub i: usize,
}

impl<'a> Cur<'a> {
    pub fn next(&mut self) -> Result<&'a str, String> {
        let t = self.f.get(self.i).ok_or("truncated request")?;
        self.i += 1;
        Ok(t)
    }
    pub fn num(&mut self) -> Result<Option<u64>, String> {
        let t = self.next()?;
        if t == "~" { Ok(None) } else { t.parse::<u64>().map(Some).map_err(|e| format!("{t}: {e}")) }
    }
    pub fn usize(&mut self) -> Result<usize, String> {
        self.next()?.parse::<usize>().map_err(|e| e.to_string())
    }
    pub fn ostr(&mut self) -> Result<Option<String>, String> {
        let t = self.next()?;
        if t == "~" { Ok(None) } else { unhex(t).map(Some) }
    }
    pub fn obool(&mut self) -> Result<Option<bool>, String> {
        match self.next()? {
            "~" => Ok(None),
            "0" => Ok(Some(false)),
            "1" => Ok(Some(true)),
            o => Err(format!("bool {o}")),
        }
    }
}

pub fn var_of(name: &str) -> Result<Var, String> {
    Ok(match name {
        "Major" => Var::Major,
        "Minor" => Var::Minor,
        "Patch" => Var::Patch,
        "Epoch" => Var::Epoch,
        "PreRelease" => Var::PreRelease,
        "Post" => Var::Post,
        "Dev" => Var::Dev,
        "Distance" => Var::Distance,
        "Dirty" => Var::Dirty,
        "BumpedBranch" => Var::BumpedBranch,
        "BumpedCommitHash" => Var::BumpedCommitHash,
        "BumpedCommitHashShort" => Var::BumpedCommitHashShort,
        "BumpedTimestamp" => Var::BumpedTimestamp,
        "LastBranch" => Var::LastBranch,
        "LastCommitHash" => Var::LastCommitHash,
        "LastCommitHashShort" => Var::LastCommitHashShort,
        "LastTimestamp" => Var::LastTimestamp,
        o => return Err(format!("var {o}")),
    })
}

pub fn comp(c: &mut Cur) -> Result<Component, String> {
    let t = c.next()?;
    let (k, v) = t.split_at(2);
    Ok(match k {
        "s:" => Component::Str(unhex(v)?),
        "u:" => Component::UInt(v.parse::<u64>().map_err(|e| e.to_string())?),
        "v:" => Component::Var(var_of(v)?),
        "c:" => Component::Var(Var::Custom(unhex(v)?)),
        "t:" => Component::Var(Var::Timestamp(unhex(v)?)),
        o => return Err(format!("component {o}")),
    })
}

pub fn comps(c: &mut Cur) -> Result<Vec<Component>, String> {
    let n = c.usize()?;
    (0..n).map(|_| comp(c)).collect()
}

pub fn prec_of(name: &str) -> Result<Precedence, String> {
    Ok(match name {
        "Epoch" => Precedence::Epoch,
        "Major" => Precedence::Major,
        "Minor" => Precedence::Minor,
        "Patch" => Precedence::Patch,
        "Core" => Precedence::Core,
        "PreReleaseLabel" => Precedence::PreReleaseLabel,
        "PreReleaseNum" => Precedence::PreReleaseNum,
        "Post" => Precedence::Post,
        "Dev" => Precedence::Dev,
        "ExtraCore" => Precedence::ExtraCore,
        "Build" => Precedence::Build,
        o => return Err(format!("precedence {o}")),
    })
}

pub fn json(c: &mut Cur) -> Result<serde_json::Value, String> {
    let t = c.next()?;
    use serde_json::Value;
    Ok(match t {
        "jn" => Value::Null,
        "jt" => Value::Bool(true),
        "jf" => Value::Bool(false),
        _ if t.starts_with("j#") => serde_json::from_str::<Value>(&unhex(&t[2..])?).map_err(|e| e.to_string())?,
        _ if t.starts_with("j$") => Value::String(unhex(&t[2..])?),
        _ if t.starts_with("ja") => {
            let n: usize = t[2..].parse().map_err(|_| "ja")?;
            Value::Array((0..n).map(|_| json(c)).collect::<Result<Vec<_>, _>>()?)
        }
        _ if t.starts_with("jo") => {
            let n: usize = t[2..].parse().map_err(|_| "jo")?;
            let mut m = serde_json::Map::new();
            for _ in 0..n {
                let k = unhex(c.next()?)?;
                let v = json(c)?;
                m.insert(k, v);
            }
            Value::Object(m)
        }
        o => return Err(format!("json {o}")),
    })
}

pub fn vars(c: &mut Cur) -> Result<ZervVars, String> {
    let major = c.num()?;
    let minor = c.num()?;
    let patch = c.num()?;
    let epoch = c.num()?;
    let pre = {
        let t = c.next()?;
        if t == "~" {
            None
        } else {
            let (l, n) = t.split_once('/').ok_or("pre")?;
            let label = match l {
                "a" => PreReleaseLabel::Alpha,
                "b" => PreReleaseLabel::Beta,
                "rc" => PreReleaseLabel::Rc,
                o => return Err(format!("label {o}")),
            };
            let number = if n == "~" { None } else { Some(n.parse::<u64>().map_err(|e| e.to_string())?) };
            Some(PreReleaseVar { label, number })
        }
    };
    let post = c.num()?;
    let dev = c.num()?;
    let distance = c.num()?;
    let dirty = c.obool()?;
    let bumped_branch = c.ostr()?;
    let bumped_commit_hash = c.ostr()?;
    let bumped_timestamp = c.num()?;
    let last_branch = c.ostr()?;
    let last_commit_hash = c.ostr()?;
    let last_timestamp = c.num()?;
    let last_tag_version = c.ostr()?;
    let custom = json(c)?;
    Ok(ZervVars {
        major, minor, patch, epoch, pre_release: pre, post, dev, distance, dirty, bumped_branch, bumped_commit_hash,
        bumped_timestamp, last_branch, last_commit_hash, last_timestamp, last_tag_version, custom,
    })
}

pub struct RawSchema {
    pub core: Vec<Component>,
    pub extra: Vec<Component>,
    pub build: Vec<Component>,
    pub prec: Vec<Precedence>,
}

pub fn raw_schema(c: &mut Cur) -> Result<RawSchema, String> {
    let core = comps(c)?;
    let extra = comps(c)?;
    let build = comps(c)?;
    let n = c.usize()?;
    let prec = (0..n).map(|_| prec_of(c.next()?)).collect::<Result<Vec<_>, _>>()?;
    Ok(RawSchema { core, extra, build, prec })
}

/// Z <schema> <vars> ; Err(None) = the schema is rejected by validation
pub fn zerv(c: &mut Cur) -> Result<Result<Zerv, String>, String> {
    if c.next()? != "Z" {
        return Err("expected Z".into());
    }
    let rs = raw_schema(c)?;
    let vs = vars(c)?;
    match ZervSchema::new_with_precedence(rs.core, rs.extra, rs.build, PrecedenceOrder::from_precedences(rs.prec)) {
        Ok(s) => Ok(Zerv::new(s, vs).map_err(|e| e.to_string())),
        Err(e) => Ok(Err(e.to_string())),
    }
}
