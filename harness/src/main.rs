//! zvh — implementation side of the correspondence check.
//! Reads one request per line on stdin, prints one reply per line on stdout.
//! Fields are separated by single spaces; a string field is 'x' followed by the
//! lower-case hex of its UTF-8 bytes; '~' is an absent optional; numbers are decimal.
use std::io::{BufRead, Write};
use std::panic::{catch_unwind, AssertUnwindSafe};

mod ops;
mod zenc;

pub fn hex(s: &str) -> String {
    let mut o = String::with_capacity(1 + 2 * s.len());
    o.push('x');
    for b in s.as_bytes() {
        o.push_str(&format!("{:02x}", b));
    }
    o
}

pub fn unhex(f: &str) -> Result<String, String> {
    let f = f.strip_prefix('x').ok_or_else(|| format!("bad string field {f}"))?;
    if f.len() % 2 != 0 {
        return Err("odd hex".into());
    }
    let mut bytes = Vec::with_capacity(f.len() / 2);
    for i in (0..f.len()).step_by(2) {
        bytes.push(u8::from_str_radix(&f[i..i + 2], 16).map_err(|e| e.to_string())?);
    }
    String::from_utf8(bytes).map_err(|e| e.to_string())
}

pub fn opt_str(f: &str) -> Result<Option<String>, String> {
    if f == "~" { Ok(None) } else { unhex(f).map(Some) }
}

pub fn flag(f: &str) -> Result<bool, String> {
    match f {
        "0" => Ok(false),
        "1" => Ok(true),
        _ => Err(format!("bad bool {f}")),
    }
}

fn main() {
    std::panic::set_hook(Box::new(|_| {}));
    let stdin = std::io::stdin();
    let stdout = std::io::stdout();
    let mut out = std::io::BufWriter::new(stdout.lock());
    for line in stdin.lock().lines() {
        let line = match line {
            Ok(l) => l,
            Err(_) => break,
        };
        let line = line.trim_end();
        if line.is_empty() {
            continue;
        }
        let fields: Vec<&str> = line.split(' ').collect();
        let reply = match catch_unwind(AssertUnwindSafe(|| ops::dispatch(&fields))) {
            Ok(Ok(r)) => r,
            Ok(Err(e)) => format!("BADREQ {}", e.replace(['\n', ' '], "_")),
            Err(p) => {
                let msg = if let Some(s) = p.downcast_ref::<&str>() {
                    s.to_string()
                } else if let Some(s) = p.downcast_ref::<String>() {
                    s.clone()
                } else {
                    "?".to_string()
                };
                format!("PANIC {}", hex(&msg))
            }
        };
        writeln!(out, "{reply}").unwrap();
    }
    out.flush().unwrap();
}
