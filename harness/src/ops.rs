use crate::{flag, hex, opt_str, unhex};
use zerv::utils::sanitize::Sanitizer;

pub fn dispatch(f: &[&str]) -> Result<String, String> {
    match f[0] {
        // SAN <sep?> <lower> <keep0> <max?> <s>
        "SAN" => {
            let sep = opt_str(f[1])?;
            let lower = flag(f[2])?;
            let keep = flag(f[3])?;
            let max = if f[4] == "~" { None } else { Some(f[4].parse::<usize>().map_err(|e| e.to_string())?) };
            let s = unhex(f[5])?;
            let z = Sanitizer::str(sep.as_deref(), lower, keep, max);
            Ok(format!("OK {}", hex(&z.sanitize(&s))))
        }
        // SANP <preset> <s>   preset in semver|pep440|uint|key
        "SANP" => {
            let s = unhex(f[2])?;
            let z = match f[1] {
                "semver" => Sanitizer::semver_str(),
                "pep440" => Sanitizer::pep440_local_str(),
                "uint" => Sanitizer::uint(),
                "key" => Sanitizer::key(),
                o => return Err(format!("preset {o}")),
            };
            Ok(format!("OK {}", hex(&z.sanitize(&s))))
        }
        o => Err(format!("unknown op {o}")),
    }
}
