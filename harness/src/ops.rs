use crate::{flag, hex, opt_str, unhex};
use std::cmp::Ordering;
use std::str::FromStr;
use zerv::cli::check::{run_check_command, CheckArgs};
use zerv::utils::sanitize::Sanitizer;
use zerv::vcs::git_utils::GitUtils;
use zerv::version::semver::{BuildMetadata, PreReleaseIdentifier};
use zerv::version::pep440::utils::LocalSegment;
use zerv::version::zerv::PreReleaseLabel;
use zerv::version::{SemVer, VersionObject, PEP440};

fn optn(o: &Option<u32>) -> String {
    match o {
        Some(n) => n.to_string(),
        None => "~".into(),
    }
}

pub fn pep_fields(v: &PEP440) -> String {
    let rel = if v.release.is_empty() {
        "-".to_string()
    } else {
        v.release.iter().map(|n| n.to_string()).collect::<Vec<_>>().join(",")
    };
    let pl = match v.pre_label {
        None => "~",
        Some(PreReleaseLabel::Alpha) => "a",
        Some(PreReleaseLabel::Beta) => "b",
        Some(PreReleaseLabel::Rc) => "rc",
    };
    let local = match &v.local {
        None => "~".to_string(),
        Some(l) if l.is_empty() => "-".to_string(),
        Some(l) => l
            .iter()
            .map(|g| match g {
                LocalSegment::Str(s) => format!("s:{}", hex(s)),
                LocalSegment::UInt(n) => format!("u:{n}"),
            })
            .collect::<Vec<_>>()
            .join(","),
    };
    format!(
        "{} {} {} {} {} {} {} {} {} {}",
        hex(&v.to_string()),
        v.epoch,
        rel,
        pl,
        optn(&v.pre_number),
        if v.post_label.is_some() { 1 } else { 0 },
        optn(&v.post_number),
        if v.dev_label.is_some() { 1 } else { 0 },
        optn(&v.dev_number),
        local
    )
}

fn ord(o: Ordering) -> &'static str {
    match o {
        Ordering::Less => "LT",
        Ordering::Equal => "EQ",
        Ordering::Greater => "GT",
    }
}

fn sv_ids_pre(v: &Option<Vec<PreReleaseIdentifier>>) -> String {
    match v {
        None => "~".into(),
        Some(l) if l.is_empty() => "-".into(),
        Some(l) => l
            .iter()
            .map(|i| match i {
                PreReleaseIdentifier::Str(s) => format!("s:{}", hex(s)),
                PreReleaseIdentifier::UInt(n) => format!("u:{n}"),
            })
            .collect::<Vec<_>>()
            .join(","),
    }
}

fn sv_ids_build(v: &Option<Vec<BuildMetadata>>) -> String {
    match v {
        None => "~".into(),
        Some(l) if l.is_empty() => "-".into(),
        Some(l) => l
            .iter()
            .map(|i| match i {
                BuildMetadata::Str(s) => format!("s:{}", hex(s)),
                BuildMetadata::UInt(n) => format!("u:{n}"),
            })
            .collect::<Vec<_>>()
            .join(","),
    }
}

pub fn semver_fields(v: &SemVer) -> String {
    format!(
        "{} {} {} {} {} {}",
        hex(&v.to_string()),
        v.major,
        v.minor,
        v.patch,
        sv_ids_pre(&v.pre_release),
        sv_ids_build(&v.build_metadata)
    )
}

pub fn dispatch(f: &[&str]) -> Result<String, String> {
    match f[0] {
        // SAN <sep?> <lower> <keep0> <max?> <s>
        "SAN" => {
            let sep = opt_str(f[1])?;
            let lower = flag(f[2])?;
            let keep = flag(f[3])?;
            let max = if f[4] == "~" { None } else { Some(f[4].parse::<usize>().map_err(|e| e.to_string())?) };
            let s = unhex(f[5])?;
            let z = Sanitizer::str(sep.as_deref(), lower, keep, max);
            Ok(format!("OK {}", hex(&z.sanitize(&s))))
        }
        // SANP <preset> <s>   preset in semver|pep440|uint|key
        "SANP" => {
            let s = unhex(f[2])?;
            let z = match f[1] {
                "semver" => Sanitizer::semver_str(),
                "pep440" => Sanitizer::pep440_local_str(),
                "uint" => Sanitizer::uint(),
                "key" => Sanitizer::key(),
                o => return Err(format!("preset {o}")),
            };
            Ok(format!("OK {}", hex(&z.sanitize(&s))))
        }
        // SVP <s>  : SemVer::from_str + Display + fields
        "SVP" => {
            let s = unhex(f[1])?;
            match SemVer::from_str(&s) {
                Ok(v) => Ok(format!("OK {}", semver_fields(&v))),
                Err(_) => Ok("ERR".into()),
            }
        }
        // SVC <s1> <s2> : Ord::cmp and ==
        "SVC" => {
            let a = SemVer::from_str(&unhex(f[1])?);
            let b = SemVer::from_str(&unhex(f[2])?);
            match (a, b) {
                (Ok(a), Ok(b)) => Ok(format!("{} {}", ord(a.cmp(&b)), if a == b { 1 } else { 0 })),
                _ => Ok("ERR".into()),
            }
        }
        // REN <fmt> Z... : SemVer::from(Zerv) / PEP440::from(Zerv) + Display + fields
        "REN" => {
            let mut c = crate::zenc::Cur { f, i: 2 };
            match crate::zenc::zerv(&mut c)? {
                Err(_) => Ok("INVALID".into()),
                Ok(z) => match f[1] {
                    "semver" => {
                        let v: SemVer = z.into();
                        Ok(format!("OK {}", semver_fields(&v)))
                    }
                    "pep440" => {
                        let v: PEP440 = z.into();
                        Ok(format!("OK {}", pep_fields(&v)))
                    }
                    o => Err(format!("fmt {o}")),
                },
            }
        }
        // RENP <fmt> <preset-name> <vars...> : preset schema chosen by schema_with_zerv, then rendered
        "RENP" => {
            use std::str::FromStr as _;
            let name = unhex(f[2])?;
            let mut c = crate::zenc::Cur { f, i: 3 };
            let vs = crate::zenc::vars(&mut c)?;
            let preset = match zerv::schema::ZervSchemaPreset::from_str(&name) {
                Ok(p) => p,
                Err(_) => return Ok("UNKNOWN".into()),
            };
            let schema = preset.schema_with_zerv(&vs);
            let z = zerv::version::zerv::Zerv::new(schema, vs).map_err(|e| e.to_string())?;
            match f[1] {
                "semver" => {
                    let v: SemVer = z.into();
                    Ok(format!("OK {}", semver_fields(&v)))
                }
                "pep440" => {
                    let v: PEP440 = z.into();
                    Ok(format!("OK {}", pep_fields(&v)))
                }
                o => Err(format!("fmt {o}")),
            }
        }
        // VER <mode> <stdin: ~ | Z...> A <n> <hexarg>...   mode = text | zerv
        //   runs run_version_pipeline on the parsed argv; `zerv` re-parses the RON output and returns the object
        "VER" | "FLW" => {
            let mode = f[1];
            let mut c = crate::zenc::Cur { f, i: 2 };
            let stdin: Option<String> = if f[2] == "~" {
                c.i = 3;
                None
            } else {
                if c.next()? != "Z" {
                    return Err("expected Z".into());
                }
                let rs = crate::zenc::raw_schema(&mut c)?;
                let vs = crate::zenc::vars(&mut c)?;
                Some(crate::zenc::raw_ron(&rs, &vs))
            };
            if c.next()? != "A" {
                return Err("expected A".into());
            }
            let n = c.usize()?;
            let mut argv: Vec<String> = vec![if f[0] == "VER" { "version".into() } else { "flow".into() }];
            for _ in 0..n {
                argv.push(unhex(c.next()?)?);
            }
            use clap::Parser as _;
            let out = if f[0] == "VER" {
                match zerv::cli::VersionArgs::try_parse_from(&argv) {
                    Ok(a) => zerv::cli::run_version_pipeline(a, stdin.as_deref()),
                    Err(_) => return Ok("ARGERR".into()),
                }
            } else {
                match zerv::cli::FlowArgs::try_parse_from(&argv) {
                    Ok(a) => zerv::cli::run_flow_pipeline(a, stdin.as_deref()),
                    Err(_) => return Ok("ARGERR".into()),
                }
            };
            match out {
                Err(_) => Ok("ERR".into()),
                Ok(t) => {
                    if mode == "zerv" {
                        match zerv::version::Zerv::from_str(&t) {
                            Ok(z) => Ok(format!("OK {}", crate::zenc::enc_zerv(&z))),
                            Err(e) => Ok(format!("REPARSE-FAILED {}", hex(&e.to_string()))),
                        }
                    } else {
                        Ok(format!("OK {}", hex(&t)))
                    }
                }
            }
        }
        // RONTXT Z... : the RON text of an object (schema written verbatim, vars through the ron serializer)
        "RONTXT" => {
            let mut c = crate::zenc::Cur { f, i: 1 };
            if c.next()? != "Z" {
                return Err("expected Z".into());
            }
            let rs = crate::zenc::raw_schema(&mut c)?;
            let vs = crate::zenc::vars(&mut c)?;
            Ok(format!("OK {}", hex(&crate::zenc::raw_ron(&rs, &vs))))
        }
        // RONRT Z... : Zerv::new -> to_string -> from_str -> == and re-emit ; replies OK <text> | INVALID | MISMATCH ...
        "RONRT" => {
            let mut c = crate::zenc::Cur { f, i: 1 };
            match crate::zenc::zerv(&mut c)? {
                Err(_) => Ok("INVALID".into()),
                Ok(z) => {
                    let t1 = z.to_string();
                    match zerv::version::Zerv::from_str(&t1) {
                        Err(e) => Ok(format!("NOPARSE {}", hex(&e.to_string()))),
                        Ok(z2) => {
                            let t2 = z2.to_string();
                            if z2 != z {
                                Ok(format!("MISMATCH-OBJECT {}", hex(&t1)))
                            } else if t2 != t1 {
                                Ok(format!("MISMATCH-TEXT {}", hex(&t1)))
                            } else {
                                Ok(format!("OK {}", hex(&t1)))
                            }
                        }
                    }
                }
            }
        }
        // RONP <text> : parse_and_validate_zerv_ron + Zerv::new(schema validation) ; OK Z... | ERR | INVALID-SCHEMA
        "RONP" => {
            let t = unhex(f[1])?;
            match zerv::cli::utils::format_handler::InputFormatHandler::parse_and_validate_zerv_ron(&t) {
                Err(_) => Ok("ERR".into()),
                Ok(z) => match zerv::version::Zerv::new(z.schema.clone(), z.vars.clone()) {
                    Ok(z) => Ok(format!("OK {}", crate::zenc::enc_zerv(&z))),
                    Err(_) => Ok("INVALID-SCHEMA".into()),
                },
            }
        }
        // RONSTR <text> : one RON string literal read with the options zerv reads its documents with ; OK <value> | ERR
        "RONSTR" => {
            let t = unhex(f[1])?;
            match zerv::version::zerv::zerv_ron_options().from_str::<String>(&t) {
                Ok(v) => Ok(format!("OK {}", hex(&v))),
                Err(_) => Ok("ERR".into()),
            }
        }
        // FMTZ <fmt> Z... : OutputFormatter::format_output without template
        "FMTZ" => {
            let mut c = crate::zenc::Cur { f, i: 2 };
            match crate::zenc::zerv(&mut c)? {
                Err(_) => Ok("INVALID".into()),
                Ok(z) => match zerv::cli::utils::OutputFormatter::format_output(&z, f[1], None, &None) {
                    Ok(o) => Ok(format!("OK {}", hex(&o))),
                    Err(_) => Ok("ERR".into()),
                },
            }
        }
        // TPL <template> Z... [T atoms (ignored here)] : OutputFormatter::format_output with an output template
        "TPL" => {
            let t = unhex(f[1])?;
            let mut c = crate::zenc::Cur { f, i: 2 };
            match crate::zenc::zerv(&mut c)? {
                Err(_) => Ok("INVALID".into()),
                Ok(z) => {
                    let tpl = Some(zerv::cli::utils::template::Template::<String>::new(t));
                    match zerv::cli::utils::OutputFormatter::format_output(&z, "semver", None, &tpl) {
                        Ok(o) => Ok(format!("OK {}", hex(&o))),
                        Err(_) => Ok("ERR".into()),
                    }
                }
            }
        }
        // RONV Z... : does a document carrying this (possibly invalid) schema get through parsing + Zerv::new ? OK | REJECT
        "RONV" => {
            let mut c = crate::zenc::Cur { f, i: 1 };
            if c.next()? != "Z" {
                return Err("expected Z".into());
            }
            let rs = crate::zenc::raw_schema(&mut c)?;
            let vs = crate::zenc::vars(&mut c)?;
            let t = crate::zenc::raw_ron(&rs, &vs);
            match zerv::cli::utils::format_handler::InputFormatHandler::parse_and_validate_zerv_ron(&t) {
                Err(_) => Ok("REJECT".into()),
                Ok(z) => match zerv::version::Zerv::new(z.schema.clone(), z.vars.clone()) {
                    Ok(_) => Ok("OK".into()),
                    Err(_) => Ok("REJECT".into()),
                },
            }
        }
        // CNV <in-fmt> <out-fmt> <prefix?> <s> : zerv render
        "CNV" => {
            let prefix = opt_str(f[3])?;
            let s = unhex(f[4])?;
            let args = zerv::cli::render::RenderArgs {
                version: s,
                input_format: f[1].to_string(),
                output: zerv::cli::common::args::OutputConfig {
                    output_format: f[2].to_string(),
                    output_template: None,
                    output_prefix: prefix,
                },
            };
            match zerv::cli::render::run_render(args) {
                Ok(t) => Ok(format!("OK {}", hex(&t))),
                Err(_) => Ok("ERR".into()),
            }
        }
        // TS <pattern> <u64> : resolve_timestamp
        "TS" => {
            let p = unhex(f[1])?;
            let t: u64 = f[2].parse().map_err(|_| "ts")?;
            match zerv::version::zerv::utils::timestamp::resolve_timestamp(&p, t) {
                Ok(v) => Ok(format!("OK {}", hex(&v))),
                Err(_) => Ok("ERR".into()),
            }
        }
        // PEP <s> : PEP440::from_str + Display + fields
        "PEP" => {
            let s = unhex(f[1])?;
            match PEP440::from_str(&s) {
                Ok(v) => Ok(format!("OK {}", pep_fields(&v))),
                Err(_) => Ok("ERR".into()),
            }
        }
        // PEC <s1> <s2>
        "PEC" => {
            let a = PEP440::from_str(&unhex(f[1])?);
            let b = PEP440::from_str(&unhex(f[2])?);
            match (a, b) {
                (Ok(a), Ok(b)) => Ok(format!("{} {}", ord(a.cmp(&b)), if a == b { 1 } else { 0 })),
                _ => Ok("ERR".into()),
            }
        }
        // VMAX <fmt> n <s>... : GitUtils::find_max_version_tag over tags parsed with <fmt>
        "VMAX" => {
            let fmt = f[1];
            let n: usize = f[2].parse().map_err(|_| "n")?;
            let mut tags = Vec::new();
            for i in 0..n {
                let t = unhex(f[3 + i])?;
                match VersionObject::parse_with_format(&t, fmt) {
                    Ok(v) => tags.push((t, v)),
                    Err(_) => return Ok("ERR".into()),
                }
            }
            match GitUtils::find_max_version_tag(&tags) {
                Ok(Some(t)) => Ok(format!("OK {}", hex(&t))),
                Ok(None) => Ok("NONE".into()),
                Err(_) => Ok("ERR".into()),
            }
        }
        // CHK <fmt?> <s> : run_check_command
        "CHK" => {
            let fmt = if f[1] == "~" { None } else { Some(f[1].to_string()) };
            let s = unhex(f[2])?;
            match run_check_command(CheckArgs { version: s, format: fmt }) {
                Ok(t) => Ok(format!("OK {}", hex(&t))),
                Err(_) => Ok("ERR".into()),
            }
        }
        o => Err(format!("unknown op {o}")),
    }
}
