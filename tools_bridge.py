"""glue: run the translators under tools/ from the orchestrator"""
import os, sys
sys.path.insert(0, os.path.join(os.path.dirname(os.path.abspath(__file__)), "tools"))


def regen_regex():
    import regex2coq
    txt, info = regex2coq.generate()
    regex2coq.write_if_changed(os.path.join(os.path.dirname(os.path.abspath(__file__)), "coq", "Gen", "RegexSrc.v"), txt)
    return info
