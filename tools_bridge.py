"""glue: run the translators under tools/ from the orchestrator"""
import os, sys
sys.path.insert(0, os.path.join(os.path.dirname(os.path.abspath(__file__)), "tools"))


def regen_regex():
    import regex2coq
    txt, info = regex2coq.generate()
    regex2coq.write_if_changed(os.path.join(os.path.dirname(os.path.abspath(__file__)), "coq", "Gen", "RegexSrc.v"), txt)
    return info


def regen_pyapi():
    import pyapi2coq
    here = os.path.dirname(os.path.abspath(__file__))
    txt, info, _ = pyapi2coq.generate(os.path.join(here, "build", "target", "debug", "zerv"))
    pyapi2coq.write_if_changed(os.path.join(here, "coq", "Gen", "PyApiGen.v"), txt)
    return info


def regen_tables():
    import tables2coq
    txt, info = tables2coq.generate()
    tables2coq.write_if_changed(os.path.join(os.path.dirname(os.path.abspath(__file__)), "coq", "Gen", "TablesSrc.v"), txt)
    return info
